import gtirb, gtirb_rewriting as gr
from gtirb_rewriting import _auxdata
from gtirb_rewriting._auxdata import NULL_UUID
from gtirb_test_helpers import add_code_block, add_symbol, add_text_section, create_test_module, add_edge
from gtirb_rewriting import RewritingContext, Patch, patch_constraints
def run(off):
    ir, m = create_test_module(gtirb.Module.FileFormat.ELF, gtirb.Module.ISA.X64)
    _, bi = add_text_section(m, address=0x1000)
    b1 = add_code_block(bi, b"\x90\x90\x90")
    _auxdata.cfi_directives.set(m, {gtirb.Offset(b1,0): [(".cfi_startproc", [], NULL_UUID), (".cfi_def_cfa", [7, 8], NULL_UUID)],
                                    gtirb.Offset(b1,3): [(".cfi_endproc", [], NULL_UUID)]})
    @patch_constraints()
    def p(ctx): return "pushq %rax\n.cfi_adjust_cfa_offset 8\npopq %rax\n.cfi_adjust_cfa_offset -8"
    ctx = RewritingContext(m, [])
    ctx.insert_at(b1, off, Patch.from_function(p))
    ctx.apply()
    t = _auxdata.cfi_directives.get(m)
    print("insert at", off, sorted((k.element_id.address + k.displacement, [d[0]+str(d[1]) for d in v]) for k, v in t.items()))
for off in (0, 1, 3): run(off)
