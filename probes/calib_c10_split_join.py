import itertools, gtirb
from gtirb_rewriting.intervalutils import split_byte_interval, join_byte_intervals
from gtirb_rewriting._adt import OffsetMapping
S = 5
cands = [(o, s) for o in range(S + 1) for s in range(0, S - o + 1)]
def snap(bi, table, blocks):
    return (bytes(bi.contents), bi.size, bi.address,
            tuple((b.offset, b.size, b.address, bytes(b.contents)) for b in blocks),
            tuple(sorted((k, v.offset) for k, v in bi.symbolic_expressions.items())),
            tuple(sorted(table.get(bi, {}).items())))
n = 0; bad = 0; exc = {}
sym = gtirb.Symbol("s")
for k in (1, 2, 3):
    for layout in itertools.combinations(cands, k):
        for data in (False, True):
            bi = gtirb.ByteInterval(contents=bytes(range(0x10, 0x10 + S)), address=0x1000)
            blocks = []
            for (o, s) in layout:
                b = (gtirb.DataBlock if data else gtirb.CodeBlock)(offset=o, size=s); b.byte_interval = bi; blocks.append(b)
            for p in range(S): bi.symbolic_expressions[p] = gtirb.SymAddrConst(p, sym)
            table = OffsetMapping(); table[bi] = {p: "c%d" % p for p in range(S + 1)}
            before = snap(bi, table, blocks)
            pre_blocks = [(b.address, bytes(b.contents)) for b in blocks]
            n += 1
            try:
                parts = split_byte_interval(bi, None, [table])
                # each group own interval & block bytes/address preserved
                mid_blocks = [(b.address, bytes(b.contents)) for b in blocks]
                if mid_blocks != pre_blocks:
                    bad += 1
                    if bad <= 5: print("SPLIT changes block view", layout, pre_blocks, mid_blocks)
                    continue
                res = join_byte_intervals(parts, b"\x90", {}, [table])
                after = snap(res, table, blocks)
                if after != before:
                    bad += 1
                    if bad <= 8: print("ROUNDTRIP differs", layout, data, "\n  before", before, "\n  after ", after)
            except Exception as e:
                exc[type(e).__name__ + ":" + str(e)[:40]] = exc.get(type(e).__name__ + ":" + str(e)[:40], 0) + 1
print("layouts", n, "bad", bad, "exceptions", exc)
