# F-C18: retarget_symbol_uses moves the call edge but leaves the return edges with the old callee.
import gtirb
from gtirb_capstone.instructions import GtirbInstructionDecoder
from gtirb_test_helpers import add_code_block, add_symbol, add_text_section, create_test_module, add_edge, add_proxy_block, add_function
from gtirb_rewriting._modify import retarget_symbol_uses
ir, m = create_test_module(gtirb.Module.FileFormat.ELF, gtirb.Module.ISA.X64)
_, bi = add_text_section(m, address=0x1000)
symA = add_symbol(m, "A"); symB = add_symbol(m, "B"); main = add_symbol(m, "main")
b1 = add_code_block(bi, b"\xE8\x00\x00\x00\x00", {(1, 4): gtirb.SymAddrConst(0, symA)})   # call A
b2 = add_code_block(bi, b"\xC3")                                                            # return site; ret
a1 = add_code_block(bi, b"\xC3"); bb = add_code_block(bi, b"\xC3")
main.referent = b1; symA.referent = a1; symB.referent = bb
add_edge(ir.cfg, b1, a1, gtirb.EdgeType.Call); add_edge(ir.cfg, b1, b2, gtirb.EdgeType.Fallthrough)
add_edge(ir.cfg, a1, b2, gtirb.EdgeType.Return)                     # A returns to the call's return site
add_edge(ir.cfg, bb, add_proxy_block(m), gtirb.EdgeType.Return)     # B has no known caller yet
add_edge(ir.cfg, b2, add_proxy_block(m), gtirb.EdgeType.Return)
add_function(m, main, b1, {b2}); add_function(m, symA, a1); add_function(m, symB, bb)
retarget_symbol_uses(m, {symA: symB}, GtirbInstructionDecoder(m.isa))
name = {b1: "main.call", b2: "main.retsite", a1: "A", bb: "B"}
for e in sorted(ir.cfg, key=lambda e: (e.source.address, e.label.type.name)):
    print(name[e.source], "->", name.get(e.target, "proxy"), e.label.type.name)
print("expected by C18: B -> main.retsite Return, and A no longer returns to main.retsite")
