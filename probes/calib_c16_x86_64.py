# Throwaway feasibility probe for C16: execute the REAL prologue/epilogue text of _X86_64_ELF on a z3 machine
# with n symbolic-distinct clobbered registers, havoc body, and check restoration + red-zone safety.
import time, re, sys
from z3 import *
import gtirb_rewriting as gr
from gtirb_rewriting.abi import _PatchRegisterAllocation

class M:
    def __init__(s, regs):
        s.sp = Int('sp0'); s.sp0 = s.sp
        s.reg = {r: Int('r0_'+r) for r in regs}; s.reg0 = dict(s.reg)
        s.flags = Int('fl0'); s.flags0 = s.flags
        s.mem = Array('mem0', IntSort(), IntSort())
        s.writes = []   # addresses written (8-byte slots)
        s.reads_ok = [] # conditions: read address was written by us
    def push(s, v): s.sp = s.sp - 8; s.mem = Store(s.mem, s.sp, v); s.writes.append(s.sp)
    def pop(s):
        a = s.sp; s.reads_ok.append(Or([a == w for w in s.writes]) if s.writes else BoolVal(False))
        v = s.mem[a]; s.sp = s.sp + 8; return v
def run(m, text):
    for line in text.strip().splitlines():
        t = line.split(); op = t[0]; args = ' '.join(t[1:]).replace(' ', '')
        if op == 'pushq': m.push(m.reg[args[1:]])
        elif op == 'popq': m.reg[args[1:]] = m.pop()
        elif op == 'pushfq': m.push(m.flags)
        elif op == 'popfq': m.flags = m.pop()
        elif op == 'leaq':
            k = int(re.match(r'([+-](?:0x)?[0-9a-f]+)\(%rsp\),%rsp', args).group(1), 0); m.sp = m.sp + k
        elif op == 'movq':
            a, b = args.split(',')
            if (a, b) == ('%rsp', '%rax'): m.reg['rax'] = m.sp
            elif (a, b) == ('%rax', '%rsp'): m.sp = m.reg['rax']
            else: raise Exception(line)
        elif op == 'andq' and args == '$-0x10,%rsp': m.sp = m.sp - m.sp % 16
        else: raise Exception('unmodelled: ' + line)

abi = gr.abi._X86_64_ELF()
allregs = [r.name for r in abi.all_registers()]
total = 0; t0 = time.time(); bad = []
for n in range(0, 15):
  for flags in (False, True):
    for align in (False, True):
      for leaf in (False, True):
        regs = abi.all_registers()[:n]   # probe: a prefix; real engine uses symbolic-distinct names
        c = gr.Constraints(clobbers_flags=flags, align_stack=align)
        pro, epi, adj = abi._create_prologue_and_epilogue(c, _PatchRegisterAllocation(list(regs), [], []), leaf)
        m = M(allregs)
        for s in pro: run(m, s.code)
        sp_body = m.sp
        # havoc: declared regs (+rax is NOT declared unless clobbered) and flags if declared; memory below sp_body
        for r in regs: m.reg[r.name] = FreshInt('h')
        if flags: m.flags = FreshInt('hf')
        hm = Array('hm%d' % total, IntSort(), IntSort()); a = Int('a')
        m.mem = Lambda([a], If(a < sp_body, hm[a], m.mem[a]))
        nwrites = len(m.writes)
        for s in epi: run(m, s.code)
        goals = [m.sp == m.sp0, m.flags == m.flags0] + [m.reg[r] == m.reg0[r] for r in allregs]
        goals += [w < m.sp0 for w in m.writes]
        if leaf: goals += [w < m.sp0 - 128 for w in m.writes]      # red zone untouched
        goals += m.reads_ok
        if adj is not None: goals.append(m.sp0 - sp_body == adj)
        if align: goals.append(sp_body % 16 == 0)
        s = Solver(); s.set('timeout', 20000); s.add(Not(And(goals)))
        r = s.check(); total += 1
        if r != unsat: bad.append((n, flags, align, leaf, str(r)))
print('queries', total, 'time %.1fs' % (time.time() - t0), 'not proved:', bad[:8], len(bad))
