import io, dataclasses, itertools
from gtirb_rewriting.dwarf import expr, cfi
from gtirb_rewriting.dwarf._encodable import _OpcodeEncodable
from gtirb_rewriting.dwarf import _encoders as E
from gtirb_rewriting.dwarf.dwarf2 import ExpressionOperations, CallFrameInstructions
def classes(base, enumty):
    st = _OpcodeEncodable._per_type_storage[enumty]
    return sorted(set(st.opcodes.values()), key=lambda c: c.__name__), st
def vals(enc):
    if isinstance(enc, E._AddToOpcodeEncoder): return [0, 1, enc.upper_bound-1], [-1, enc.upper_bound]
    if isinstance(enc, E._ULEB128Encoder): return [0,1,127,128,16383,16384,2**32,2**64-1,2**70], [-1]
    if isinstance(enc, E._SLEB128Encoder): return [0,1,-1,63,64,-64,-65,8191,8192,-8192,-8193,2**63,-2**63-1], []
    if isinstance(enc, E._IntEncoder):
        b=enc.byte_size*8
        return ([0,1,2**b-1] if not enc.signed else [0,-1,2**(b-1)-1,-2**(b-1)]), ([-1,2**b] if not enc.signed else [2**(b-1), -2**(b-1)-1])
    if isinstance(enc, E._UIntPtrEncoder): return [0,1,2**32-1], [-1]
    if isinstance(enc, cfi._ExprEncoder): return [[], [expr.OpLit(1)], [expr.OpConst8U(2**64-1), expr.OpBReg(31, -5)]*20], []
    raise Exception(enc)
problems = []; n = 0
for base, enumty in ((expr.Operation, ExpressionOperations), (cfi.Instruction, CallFrameInstructions)):
    cls_list, st = classes(base, enumty)
    for c in cls_list:
        fe = list(c._fields_and_encoders())
        good = [vals(e)[0] for _, e in fe]; bad = [vals(e)[1] for _, e in fe]
        for combo in itertools.product(*good) if fe else [()]:
            for bo in ("little", "big"):
                for ps in (4, 8):
                    try:
                        o = c(*combo); enc = bytes(o.encode(bo, ps)); n += 1
                        d, r = base.decode(io.BytesIO(enc + b"\xaa\xbb"), bo, ps)
                        if d != o or r != len(enc): problems.append(("RT", c.__name__, combo, bo, ps, enc.hex(), d, r))
                    except Exception as ex:
                        problems.append(("EXC", c.__name__, combo, bo, ps, type(ex).__name__, str(ex)))
        for i, b in enumerate(bad):
            for v in b:
                args = [g[0] for g in good]; args[i] = v
                try:
                    o = c(*args); problems.append(("NOREJECT", c.__name__, args))
                except ValueError: pass
                except Exception as ex: problems.append(("WRONGEXC", c.__name__, args, type(ex).__name__))
print("encodings tried", n, "problems", len(problems))
seen=set()
for p in problems:
    k=(p[0],p[1])
    if k in seen: continue
    seen.add(k); print(p[:7])
# make_const_op probe around boundaries
import leb128
bad=[]
cands = [expr.OpLit, expr.OpConst1U, expr.OpConst1S, expr.OpConst2U, expr.OpConst2S, expr.OpConst4U, expr.OpConst4S, expr.OpConst8U, expr.OpConst8S, expr.OpConstU, expr.OpConstS]
pts=set()
for k in range(0,65):
    for d in (-2,-1,0,1,2):
        pts.add(2**k+d); pts.add(-(2**k)+d)
for k in range(1,11):
    for d in (-1,0,1): pts.add(2**(7*k)+d); pts.add(-(2**(7*k))+d); pts.add(2**(7*k-1)+d); pts.add(-(2**(7*k-1))+d)
for v in sorted(pts):
    try: op = expr.make_const_op(v)
    except ValueError:
        if -2**63 <= v < 2**64: bad.append(("rejects", v))
        continue
    if not (-2**63 <= v < 2**64): bad.append(("accepts", v)); continue
    L = len(op.encode("little", 8)); best = None
    for c in cands:
        try: l = len(c(v).encode("little", 8)); best = l if best is None else min(best, l)
        except ValueError: pass
    if op.value != v or L != best: bad.append((v, type(op).__name__, L, best))
print("make_const_op bad:", bad[:10], len(bad))
