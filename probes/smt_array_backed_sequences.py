import time
from z3 import *
# array-backed sequences: (len, arr)
class S:
    def __init__(s, n, a): s.n, s.a = n, a
def sl(x, lo, hi):  # x[lo:hi] with 0<=lo<=hi<=len
    k = Int('k!%d' % id(x))
    return S(hi-lo, Lambda([k], x.a[k+lo]))
def cat(x, y):
    k = Int('k!c%d' % id(x))
    return S(x.n+y.n, Lambda([k], If(k < x.n, x.a[k], y.a[k-x.n])))
def splice(x, o, l, c): return cat(cat(sl(x, 0, o), c), sl(x, o+l, x.n))
def eq_neg(x, y):  # negation of extensional equality, skolemized
    w = FreshInt('w')
    return Or(x.n != y.n, And(0 <= w, w < x.n, x.a[w] != y.a[w]))
A = Array('A', IntSort(), IntSort()); n = Int('n'); X = S(n, A)
c1 = S(Int('n1'), Array('C1', IntSort(), IntSort())); c2 = S(Int('n2'), Array('C2', IntSort(), IntSort()))
o1,l1,o2,l2 = Ints('o1 l1 o2 l2')
pre = And(n>=0, c1.n>=0, c2.n>=0, 0<=o1, 0<=l1, o1+l1<=o2, 0<=l2, o2+l2<=n)
# apply edit1 then edit2 at shifted offset  vs  spec: X[:o1]+c1+X[o1+l1:o2]+c2+X[o2+l2:]
step1 = splice(X, o1, l1, c1)
step2 = splice(step1, o2 + (c1.n - l1), l2, c2)
spec = cat(cat(cat(cat(sl(X,0,o1), c1), sl(X,o1+l1,o2)), c2), sl(X,o2+l2,n))
s = Solver(); s.set('timeout', 30000)
s.add(pre, eq_neg(step2, spec))
t=time.time(); print('two-splice composition:', s.check(), round(time.time()-t,3))
# mutated: forget the shift
step2b = splice(step1, o2, l2, c2)
s = Solver(); s.set('timeout', 30000); s.add(pre, eq_neg(step2b, spec))
t=time.time(); r=s.check(); print('mutant:', r, round(time.time()-t,3))
if r==sat:
    m=s.model(); print({str(d):m[d] for d in m.decls() if d.arity()==0})
