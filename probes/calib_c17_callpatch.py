import re, itertools, unittest.mock, gtirb
import gtirb_rewriting as gr
from gtirb_rewriting.patches import CallPatch
from gtirb_rewriting.abi import CallingConventionDesc, ABI
from gtirb_test_helpers import create_test_module, add_symbol, add_proxy_block
def sim(lines, w, isa):
    sp = 0; at_call = None; regs = {}; stack = {}
    for ln in lines:
        t = ln.replace(',', ' ').split()
        if isa == 'arm':
            if t[0] == 'sub' and t[1] == 'sp': sp -= int(t[3][1:])
            elif t[0] == 'add' and t[1] == 'sp': sp += int(t[3][1:])
            elif t[0] == 'bl': at_call = sp
            elif t[0] == 'str': stack[sp + int(t[3][1:-1])] = regs.get(t[1])
            elif t[0] == 'mov': regs[t[1]] = int(t[2][1:], 16)
            elif t[0] == 'movz': regs[t[1]] = int(t[2][1:], 16)
            elif t[0] == 'movk': regs[t[1]] = (regs[t[1]] & ~(0xFFFF << int(t[4][1:]))) | (int(t[2][1:], 16) << int(t[4][1:]))
            else: raise Exception(ln)
        else:
            if t[0] == 'sub': sp -= int(t[2])
            elif t[0] == 'add': sp += int(t[2])
            elif t[0] == 'push': sp -= w; stack[sp] = int(t[1])
            elif t[0] == 'mov': regs[t[1]] = int(t[2])
            elif t[0] == 'call': at_call = sp; snapshot = dict(stack)
            else: raise Exception(ln)
    return sp, at_call, regs, stack
bad = []
n = 0
for isa, ff, w in ((gtirb.Module.ISA.X64, gtirb.Module.FileFormat.ELF, 8), (gtirb.Module.ISA.X64, gtirb.Module.FileFormat.PE, 8), (gtirb.Module.ISA.IA32, gtirb.Module.FileFormat.PE, 4), (gtirb.Module.ISA.ARM64, gtirb.Module.FileFormat.ELF, 8)):
    _, m = create_test_module(ff, isa); sym = add_symbol(m, "foo", add_proxy_block(m))
    conv = ABI.get(m).calling_convention()
    for nargs in range(0, 17):
        for adj in (None, 0, w, 2*w, 3*w, 5*w):
            args = tuple(100 + i for i in range(nargs))
            p = CallPatch(sym, args=args)
            ctx = unittest.mock.MagicMock(spec=gr.InsertionContext, module=m, stack_adjustment=adj)
            lines = p.get_asm(ctx).split("\n")
            sp, at_call, regs, stack = sim(lines, w, 'arm' if isa == gtirb.Module.ISA.ARM64 else 'x86')
            n += 1
            start_misalign = 0 if adj is None else adj   # aligned original sp; prologue moved it by adj
            probs = []
            if sp != 0: probs.append(('not neutral', sp))
            if (at_call - start_misalign) % conv.stack_alignment != 0: probs.append(('misaligned at call', at_call, adj))
            nreg = len(conv.registers)
            for i, r in enumerate(conv.registers[:nargs]):
                if regs.get(r) != 100 + i: probs.append(('reg arg', i, r, regs.get(r)))
            for j in range(max(0, nargs - nreg)):
                slot = at_call + conv.shadow_space + j * (8 if isa == gtirb.Module.ISA.ARM64 else w)
                if stack.get(slot) != 100 + nreg + j: probs.append(('stack arg', j, slot, stack.get(slot)))
            if probs: bad.append((isa.name, ff.name, nargs, adj, probs[:2]))
print("configs", n, "bad", len(bad))
for b in bad[:12]: print(b)
