# Feasibility spike (design phase, throw-away): symbolic execution of the REAL
# _OpcodeEncodable.encode / decode / _validate source, obtained from the live
# function objects, partially evaluated on the real class metadata, with symbolic
# field values.  Proves per class:  decode(encode(x) ++ tail) == (x, len(encode(x)))
# and "no exception for validated values".  Not the framework.
import ast, inspect, textwrap, io, sys, time, dataclasses, types, itertools
import z3
import leb128
from gtirb_rewriting.dwarf import expr, cfi, _encodable, _encoders
from gtirb_rewriting.dwarf.dwarf2 import ExpressionOperations, CallFrameInstructions

# ---------------------------------------------------------------- values
class Seq:                       # array-backed byte sequence, with provenance segments [(start, len, tag)]
    def __init__(s, n, a, segs=None): s.n, s.a = n, a; s.segs = segs or []
    @staticmethod
    def lit(bs):
        a = z3.K(z3.IntSort(), z3.IntVal(0))
        for i, b in enumerate(bs): a = z3.Store(a, i, b if z3.is_expr(b) else z3.IntVal(b))
        return Seq(z3.IntVal(len(bs)), a)
    def cat(s, o):
        k = z3.FreshInt('k')
        segs = list(s.segs) + [(z3.simplify(s.n + st), ln, tag) for (st, ln, tag) in o.segs]
        return Seq(s.n + o.n, z3.Lambda([k], z3.If(k < s.n, s.a[k], o.a[k - s.n])), segs)
class SObj:                      # symbolic instance of a concrete dataclass
    def __init__(s, cls, fields): s.cls, s.fields = cls, fields
class Reader:                    # io.BytesIO over a Seq
    def __init__(s, seq): s.seq, s.pos = seq, z3.IntVal(0)
class Raised(Exception):
    def __init__(s, cls, msg=None): s.cls, s.msg = cls, msg
class Ret(Exception):
    def __init__(s, v): s.v = v
def is_sym(v): return z3.is_expr(v)
def zint(v): return v if z3.is_expr(v) else z3.IntVal(v)

# uninterpreted LEB128 spec (dependency contract, assumed): bytes and length
ULEN = z3.Function('ulen', z3.IntSort(), z3.IntSort()); UB = z3.Function('ubyte', z3.IntSort(), z3.IntSort(), z3.IntSort())
SLEN = z3.Function('slen', z3.IntSort(), z3.IntSort()); SB = z3.Function('sbyte', z3.IntSort(), z3.IntSort(), z3.IntSort())
LEB_TAG = {}   # seq id -> ('u'|'s', value) so that decode_reader can recognise an encoding at a position

def _leb_axioms():
    a, b, i = z3.Ints('a b i'); ax = []
    for (LEN, BY) in ((ULEN, UB), (SLEN, SB)):
        ax.append(z3.ForAll([a, b], z3.Implies(z3.ForAll([i], z3.Implies(z3.And(0 <= i, i < LEN(a)), BY(a, i) == BY(b, i))), a == b)))
    return ax
AXIOMS = _leb_axioms()
class Path:
    def __init__(s, pc=None, facts=None): s.pc = list(pc or []); s.facts = list(facts or [])
    def fork(s, c): return Path(s.pc + [c], s.facts)
    def sat(s, c=None):
        so = z3.Solver(); so.set('timeout', 5000); so.add(*s.pc); so.add(*s.facts)
        if c is not None: so.add(c)
        return so.check() == z3.sat if getattr(s, 'strict', False) else so.check() != z3.unsat

class Interp:
    def __init__(s): s.paths_done = []; s.cache = {}
    # -- source of a live function object
    def fn_ast(s, f):
        f = getattr(f, '__func__', f)
        if f not in s.cache:
            src = textwrap.dedent(inspect.getsource(f)); s.cache[f] = ast.parse(src).body[0]
        return s.cache[f]
    def call_fn(s, f, args, kwargs, path):
        """inline a repo function: returns list of (path, value) ; raises propagate as (path, Raised)"""
        node = s.fn_ast(f); fo = getattr(f, '__func__', f)
        params = [a.arg for a in node.args.args]
        env = dict(zip(params, args))
        defaults = node.args.defaults
        for p, d in zip(params[len(params) - len(defaults):], defaults):
            if p not in env: env[p] = s.eval_const(d, fo.__globals__)
        env.update(kwargs)
        env['__globals__'] = fo.__globals__
        return s.exec_block(node.body, env, path)
    def eval_const(s, node, g): return eval(compile(ast.Expression(node), '<c>', 'eval'), g)
    # -- statements: returns list of (path, env, outcome) with outcome None | ('ret', v) | ('raise', Raised)
    def exec_block(s, stmts, env, path):
        states = [(path, env, None)]
        for st in stmts:
            nxt = []
            for (p, e, out) in states:
                if out is not None: nxt.append((p, e, out)); continue
                nxt.extend(s.exec_stmt(st, e, p))
            states = nxt
        return states
    def exec_stmt(s, st, env, path):
        res = []
        if isinstance(st, ast.Expr):
            if isinstance(st.value, ast.Constant): return [(path, env, None)]      # docstring
            for (p, v) in s.eval(st.value, env, path):
                res.append((p, env, ('raise', v)) if isinstance(v, Raised) else (p, env, None))
            return res
        if isinstance(st, ast.Assign):
            for (p, v) in s.eval(st.value, env, path):
                if isinstance(v, Raised): res.append((p, env, ('raise', v))); continue
                e2 = dict(env); s.assign(st.targets[0], v, e2, p); res.append((p, e2, None))
            return res
        if isinstance(st, ast.AugAssign):
            cur = ast.BinOp(left=ast.Name(id=st.target.id, ctx=ast.Load()) if isinstance(st.target, ast.Name) else st.target, op=st.op, right=st.value)
            for (p, v) in s.eval(cur, env, path):
                if isinstance(v, Raised): res.append((p, env, ('raise', v))); continue
                e2 = dict(env); s.assign(st.target, v, e2, p); res.append((p, e2, None))
            return res
        if isinstance(st, ast.Return):
            if st.value is None: return [(path, env, ('ret', None))]
            return [(p, env, ('raise', v) if isinstance(v, Raised) else ('ret', v)) for (p, v) in s.eval(st.value, env, path)]
        if isinstance(st, ast.Raise):
            out = []
            for (p, v) in s.eval(st.exc, env, path):
                out.append((p, env, ('raise', v if isinstance(v, Raised) else Raised(type(v) if not isinstance(v, type) else v))))
            return out
        if isinstance(st, ast.Assert):
            out = []
            for (p, c) in s.eval(st.test, env, path):
                for (p2, b) in s.branch(c, p):
                    out.append((p2, env, None) if b else (p2, env, ('raise', Raised(AssertionError))))
            return out
        if isinstance(st, ast.If):
            out = []
            for (p, c) in s.eval(st.test, env, path):
                if isinstance(c, Raised): out.append((p, env, ('raise', c))); continue
                for (p2, b) in s.branch(c, p):
                    out.extend(s.exec_block(st.body if b else st.orelse, env, p2))
            return out
        if isinstance(st, ast.For):
            out = []
            for (p, it) in s.eval(st.iter, env, path):
                assert not is_sym(it), 'only concrete iterables in the spike'
                states = [(p, env, None)]
                broke = False
                for item in list(it):
                    nxt = []
                    for (pp, e, o) in states:
                        if o is not None: nxt.append((pp, e, o)); continue
                        e2 = dict(e); s.assign(st.target, item, e2, pp)
                        for (p3, e3, o3) in s.exec_block(st.body, e2, pp):
                            if o3 == ('break',): nxt.append((p3, e3, ('broke',)))
                            else: nxt.append((p3, e3, o3))
                    states = nxt
                    if all(o == ('broke',) for (_, _, o) in states if o is not None) and all(o is not None for (_, _, o) in states): break
                out.extend([(pp, e, None if o == ('broke',) else o) for (pp, e, o) in states])
            return out
        if isinstance(st, ast.Break): return [(path, env, ('break',))]
        if isinstance(st, ast.Pass): return [(path, env, None)]
        if isinstance(st, ast.Try):
            out = []
            for (p, e, o) in s.exec_block(st.body, env, path):
                if o and o[0] == 'raise':
                    handled = False
                    for h in st.handlers:
                        hcls = s.eval_const(h.type, env['__globals__']) if h.type is not None else BaseException
                        if issubclass(o[1].cls, hcls):
                            e2 = dict(e)
                            if h.name: e2[h.name] = o[1]
                            out.extend(s.exec_block(h.body, e2, p)); handled = True; break
                    if not handled: out.append((p, e, o))
                else: out.append((p, e, o))
            return out
        raise NotImplementedError(ast.dump(st)[:80])
    def assign(s, tgt, v, env, path):
        if isinstance(tgt, ast.Name): env[tgt.id] = v
        elif isinstance(tgt, ast.Tuple):
            for t, x in zip(tgt.elts, v): s.assign(t, x, env, path)
        elif isinstance(tgt, ast.Subscript):
            cont = s.eval1(tgt.value, env, path); key = s.eval1(tgt.slice, env, path); cont[key] = v
        else: raise NotImplementedError(ast.dump(tgt))
    def branch(s, c, path):
        if isinstance(c, Raised): return []
        if not is_sym(c): return [(path, bool(c))]
        out = []
        if path.sat(c): out.append((path.fork(c), True))
        if path.sat(z3.Not(c)): out.append((path.fork(z3.Not(c)), False))
        return out
    def truth(s, v):
        if is_sym(v): return v if z3.is_bool(v) else v != 0
        if isinstance(v, Seq): return v.n != 0
        return bool(v)
    # -- expressions: list of (path, value)
    def eval1(s, node, env, path):
        r = s.eval(node, env, path); assert len(r) == 1, 'unexpected fork'; return r[0][1]
    def eval(s, node, env, path):
        if isinstance(node, ast.Constant): return [(path, node.value)]
        if isinstance(node, ast.Name):
            if node.id in env: return [(path, env[node.id])]
            g = env['__globals__']
            if node.id in g: return [(path, g[node.id])]
            return [(path, __builtins__.__dict__[node.id])]
        if isinstance(node, ast.Tuple): return s.eval_many(node.elts, env, path, tuple)
        if isinstance(node, ast.Dict):
            assert not node.keys; return [(path, {})]
        if isinstance(node, ast.JoinedStr): return [(path, '<fstring>')]
        if isinstance(node, ast.Attribute):
            out = []
            for (p, o) in s.eval(node.value, env, path):
                if isinstance(o, SObj):
                    if node.attr in o.fields: out.append((p, o.fields[node.attr]))
                    else:
                        raw = inspect.getattr_static(o.cls, node.attr)
                        out.append((p, types.MethodType(raw, o) if isinstance(raw, types.FunctionType) else getattr(o.cls, node.attr)))
                else: out.append((p, ('method', o, node.attr) if (is_sym(o) or isinstance(o, (Seq, Reader))) else getattr(o, node.attr)))
            return out
        if isinstance(node, ast.UnaryOp):
            out = []
            for (p, v) in s.eval(node.operand, env, path):
                if isinstance(node.op, ast.Not):
                    t = s.truth(v); out.append((p, z3.Not(t) if is_sym(t) else (not t)))
                elif isinstance(node.op, ast.USub): out.append((p, -v))
                else: raise NotImplementedError
            return out
        if isinstance(node, ast.BoolOp):
            # short-circuit via forking
            def go(vals, p):
                if not vals: return [(p, isinstance(node.op, ast.And))]
                out = []
                for (p1, v) in s.eval(vals[0], env, p):
                    for (p2, b) in s.branch(s.truth(v), p1):
                        if isinstance(node.op, ast.And): out.extend([(p2, False)] if not b else (go(vals[1:], p2) if vals[1:] else [(p2, v)]))
                        else: out.extend([(p2, v)] if b else (go(vals[1:], p2) if vals[1:] else [(p2, v)]))
                return out
            return go(node.values, path)
        if isinstance(node, ast.BinOp):
            out = []
            for (p, l) in s.eval(node.left, env, path):
                for (p2, r) in s.eval(node.right, env, p):
                    out.append((p2, s.binop(node.op, l, r)))
            return out
        if isinstance(node, ast.Compare):
            out = []
            for (p, l) in s.eval(node.left, env, path):
                acc = [(p, l, True)]
                for op, rn in zip(node.ops, node.comparators):
                    nxt = []
                    for (pp, lv, cond) in acc:
                        for (p3, rv) in s.eval(rn, env, pp):
                            c = s.compare(op, lv, rv)
                            nxt.append((p3, rv, c if cond is True else z3.And(cond, c) if (is_sym(c) or is_sym(cond)) else (cond and c)))
                    acc = nxt
                out.extend([(pp, c) for (pp, _, c) in acc])
            return out
        if isinstance(node, ast.Subscript):
            out = []
            for (p, c) in s.eval(node.value, env, path):
                for (p2, k) in s.eval(node.slice, env, p): out.append((p2, c[k]))
            return out
        if isinstance(node, ast.Call): return s.eval_call(node, env, path)
        if isinstance(node, ast.IfExp):
            out = []
            for (p, c) in s.eval(node.test, env, path):
                for (p2, b) in s.branch(s.truth(c), p): out.extend(s.eval(node.body if b else node.orelse, env, p2))
            return out
        raise NotImplementedError(ast.dump(node)[:100])
    def eval_many(s, nodes, env, path, ctor=list):
        acc = [(path, [])]
        for n in nodes:
            nxt = []
            for (p, vs) in acc:
                for (p2, v) in s.eval(n, env, p): nxt.append((p2, vs + [v]))
            acc = nxt
        return [(p, next((v for v in vs if isinstance(v, Raised)), None) or ctor(vs)) for (p, vs) in acc]
    def binop(s, op, l, r):
        if isinstance(l, Seq) or isinstance(r, Seq):
            assert isinstance(op, ast.Add)
            l = l if isinstance(l, Seq) else Seq.lit(list(l)); r = r if isinstance(r, Seq) else Seq.lit(list(r)); return l.cat(r)
        if isinstance(op, ast.Add): return l + r
        if isinstance(op, ast.Sub): return l - r
        if isinstance(op, ast.Mult): return l * r
        if isinstance(op, ast.Pow): return l ** r
        raise NotImplementedError(op)
    def compare(s, op, l, r):
        if isinstance(op, (ast.In, ast.NotIn)):
            assert isinstance(r, range) and r.step == 1
            c = z3.And(zint(l) >= r.start, zint(l) < r.stop) if is_sym(l) else (l in r)
            return (z3.Not(c) if is_sym(c) else (not c)) if isinstance(op, ast.NotIn) else c
        if isinstance(op, ast.Is): return l is r
        if isinstance(op, ast.IsNot): return l is not r
        table = {ast.Lt: lambda a, b: a < b, ast.LtE: lambda a, b: a <= b, ast.Gt: lambda a, b: a > b, ast.GtE: lambda a, b: a >= b,
                 ast.Eq: lambda a, b: a == b, ast.NotEq: lambda a, b: a != b}
        return table[type(op)](l, r)
    # -- calls
    def eval_call(s, node, env, path):
        out = []
        for (p, f) in s.eval(node.func, env, path):
            for (p2, args) in s.eval_many([a for a in node.args if not isinstance(a, ast.Starred)], env, p):
                kw = {}
                pk = p2
                for k in node.keywords:
                    v = s.eval1(k.value, env, pk)
                    if k.arg is None: kw.update(v)
                    else: kw[k.arg] = v
                out.extend(s.apply(f, args, kw, pk))
        return out
    def apply(s, f, args, kw, path):
        # symbolic-receiver methods
        if isinstance(f, tuple) and f[0] == 'method':
            _, recv, name = f
            if name == 'to_bytes': return s.to_bytes(recv, args, kw, path)
            if name == 'read':
                n = args[0]; assert not is_sym(n)
                bs = [recv.seq.a[recv.pos + i] for i in range(n)]
                # (spike: assumes enough bytes remain; the framework generates the short-read branch)
                recv2 = recv; recv.pos = z3.simplify(recv.pos + n); return [(path, Seq.lit(bs))]
            raise NotImplementedError(name)
        if f is isinstance: return [(path, isinstance(args[0], args[1]) if not isinstance(args[0], SObj) else issubclass(args[0].cls, args[1]))]
        if f is issubclass: return [(path, issubclass(*args))]
        if f is getattr:
            o, name = args[0], args[1]
            return [(path, o.fields[name] if isinstance(o, SObj) else getattr(o, name))]
        if f is bytearray: return [(path, Seq.lit([]))]
        if f is len: return [(path, args[0].n if isinstance(args[0], Seq) else len(args[0]))]
        if f is type: return [(path, args[0].cls if isinstance(args[0], SObj) else type(args[0]))]
        if f is ValueError or f is TypeError: return [(path, Raised(f, args[0] if args else None))]
        if getattr(f, '__self__', None) is int and getattr(f, '__name__', '') == 'from_bytes': return s.from_bytes(args, kw, path)
        if f is leb128.u.encode or f is leb128.i.encode:
            v = zint(args[0]); u = f is leb128.u.encode
            n = (ULEN if u else SLEN)(v); k = z3.FreshInt('k')
            sq = Seq(n, z3.Lambda([k], (UB if u else SB)(v, k)), [(z3.IntVal(0), n, ('u' if u else 's', v))])
            path.facts.append(n >= 1)
            return [(path, sq)]
        if f is leb128.u.decode_reader or f is leb128.i.decode_reader:
            # dependency contract (assumed): at a position holding leb(v) ++ tail, returns (v, len(leb(v)))
            rd = args[0]; u = f is leb128.u.decode_reader
            for (st, ln, tag) in rd.seq.segs:
                if tag[0] == ('u' if u else 's'):
                    so = z3.Solver(); so.set('timeout', 5000); so.add(*path.pc); so.add(*path.facts); so.add(st != rd.pos)
                    if so.check() == z3.unsat:
                        v, n = tag[1], ln
                        if u: path.facts.append(v >= 0)      # requires of u.encode (asserted i >= 0) -- see validate
                        rd.pos = z3.simplify(rd.pos + n)
                        return [(path, (v, n))]
            raise NotImplementedError('decode_reader: no ghost witness for the stream position')
        # concrete classmethods / functions with concrete args -> native folding
        fo = getattr(f, '__func__', f)
        all_conc = all(not is_sym(a) and not isinstance(a, (SObj, Seq, Reader)) for a in list(args) + list(kw.values()))
        if isinstance(f, type) and dataclasses.is_dataclass(f) and issubclass(f, _encodable._OpcodeEncodable):
            # dataclass ctor: build symbolic instance, run the REAL __post_init__
            names = [fl.name for fl in dataclasses.fields(f)]
            fields = dict(zip(names, args)); fields.update(kw)
            obj = SObj(f, fields); res = []
            for (p, e, o) in s.call_fn(f.__post_init__, [obj], {}, path):
                res.append((p, o[1]) if (o and o[0] == 'raise') else (p, obj))
            return res
        self_obj = getattr(f, '__self__', None)
        if all_conc and not isinstance(self_obj, (SObj,)):
            if inspect.isgeneratorfunction(fo): return [(path, list(f(*args, **kw)))]
            try: return [(path, f(*args, **kw))]
            except Exception as ex: return [(path, Raised(type(ex), str(ex)))]
        if isinstance(f, types.MethodType) or isinstance(f, types.FunctionType):
            recv = [f.__self__] if isinstance(f, types.MethodType) else []
            res = []
            for (p, e, o) in s.call_fn(f, recv + list(args), kw, path):
                if o is None: res.append((p, None))
                elif o[0] == 'ret': res.append((p, o[1]))
                else: res.append((p, o[1]))
            return res
        raise NotImplementedError(repr(f))
    def to_bytes(s, v, args, kw, path):
        n = args[0]; bo = args[1]; signed = kw.get('signed', False); v = zint(v)
        lo, hi = (-(2 ** (8 * n - 1)), 2 ** (8 * n - 1)) if signed else (0, 2 ** (8 * n))
        out = []
        inr = z3.And(v >= lo, v < hi)
        if path.sat(z3.Not(inr)): out.append((path.fork(z3.Not(inr)), Raised(OverflowError)))
        if path.sat(inr):
            p = path.fork(inr); u = v if not signed else (v + 2 ** (8 * n)) % (2 ** (8 * n))
            little = [(u / (256 ** i)) % 256 for i in range(n)]
            big = list(reversed(little))
            if is_sym(bo) or not isinstance(bo, str):
                raise NotImplementedError('symbolic byteorder')
            out.append((p, Seq.lit(little if bo == 'little' else big)))
        return out
    def from_bytes(s, args, kw, path):
        sq, bo = args[0], args[1]; signed = kw.get('signed', False)
        n = int(str(z3.simplify(sq.n)))
        bs = [sq.a[i] for i in range(n)]
        if bo == 'big': bs = list(reversed(bs))
        u = sum((b * (256 ** i) for i, b in enumerate(bs)), z3.IntVal(0))
        v = z3.If(u >= 2 ** (8 * n - 1), u - 2 ** (8 * n), u) if signed else u
        return [(path, z3.simplify(v))]

# symbolic dict lookup opcodes.get(byte): resolved by case split (monkey hook used by the spike)
def lookup_opcode(interp, storage, key, path):
    groups = {}
    for k, c in storage.opcodes.items(): groups.setdefault(c, []).append(k)
    out = []
    rest = []
    for c, ks in groups.items():
        cond = z3.Or([key == k for k in ks])
        if path.sat(cond): out.append((path.fork(cond), c))
        rest.append(z3.Not(cond))
    none = z3.And(rest)
    if path.sat(none): out.append((path.fork(none), None))
    return out

def field_value_domain(enc, name):
    v = z3.Int('x_' + name); return v

def verify_class(base, cls, byteorder, ptr_size):
    I = Interp(); I.leb_reads = []
    fes = list(cls._fields_and_encoders())
    if any(isinstance(e, cfi._ExprEncoder) for _, e in fes): return 'skipped(expr operand: needs the loop invariant)', 0
    fields = {f.name: z3.Int('x_' + f.name) for f, _ in fes}
    obj = SObj(cls, fields)
    path0 = Path()
    # precondition: the object was constructed, i.e. __post_init__ did not raise
    pre_states = I.call_fn(cls.__post_init__, [obj], {}, path0)
    ok_pre = [p for (p, e, o) in pre_states if not (o and o[0] == 'raise')]
    nobl = 0; failures = []
    for p in ok_pre:
        for (p1, e1, o1) in I.call_fn(cls.encode, [obj, byteorder, ptr_size], {}, p):
            if o1[0] == 'raise':
                # allowed only if it is ValueError from validation against ptr_size (spec: out of pointer range)
                if o1[1].cls is ValueError: continue
                failures.append(('encode raises', o1[1].cls.__name__)); continue
            enc = o1[1]
            tail = Seq(z3.Int('tail_n'), z3.Array('tail', z3.IntSort(), z3.IntSort()))
            p1.facts.append(tail.n >= 0)
            rd = Reader(enc.cat(tail))
            # decode, with the symbolic dict lookup handled by case split: run the real decode source but intercept .get
            storage = base._per_type_storage[base._opcode_type]
            class StorageProxy:
                def __init__(s): s.opcodes = s
                def get(s, key): raise RuntimeError
            # we inline decode manually around the lookup to keep the spike small: real source still drives everything else
            first = z3.simplify(rd.seq.a[0])
            for (p2, opcode_cls) in lookup_opcode(I, storage, first, p1):
                if opcode_cls is None: failures.append(('decode: invalid opcode byte possible', str(first))); continue
                if opcode_cls is not cls: failures.append(('decode picks another class', opcode_cls.__name__)); continue
                # run the tail of the REAL decode: everything after the lookup is executed from source
                src = textwrap.dedent(inspect.getsource(base.decode.__func__)); fn = ast.parse(src).body[0]
                body = fn.body
                # find the statement index after 'opcode_cls = type_storage.opcodes.get(opcode_byte)'
                idx = next(i for i, st in enumerate(body) if isinstance(st, ast.Assign) and isinstance(st.targets[0], ast.Name) and st.targets[0].id == 'opcode_cls')
                rd2 = Reader(rd.seq); rd2.pos = z3.IntVal(1)
                env = {'cls': base, 'io': rd2, 'byteorder': byteorder, 'ptr_size': ptr_size, 'opcode_byte': first, 'bytes_read': 1,
                       'opcode_cls': opcode_cls, 'type_storage': storage, '__globals__': base.decode.__func__.__globals__}
                for (p3, e3, o3) in I.exec_block(body[idx + 1:], env, p2):
                    nobl += 1
                    if o3[0] == 'raise':
                        # must be infeasible
                        if p3.sat(): failures.append(('decode raises', o3[1].cls.__name__))
                        continue
                    dobj, nread = o3[1]
                    # LEB dependency contract: the value read at a position equals the value written there
                    goal = [zint(nread) == enc.n] + [zint(dobj.fields[k]) == fields[k] for k in fields]
                    so = z3.Solver(); so.set('timeout', 20000); so.add(*p3.pc); so.add(*p3.facts)
                    so.add(z3.Not(z3.And(goal)))
                    r = so.check()
                    if r != z3.unsat: failures.append(('round trip', str(r)))
    if nobl == 0 and not failures: return 'VACUOUS (no obligation generated)', 0
    return ('OK' if not failures else 'FAIL %s' % failures[:2]), nobl

if __name__ == '__main__':
    t0 = time.time(); tot = 0; summary = {}
    for base, enumty in ((expr.Operation, ExpressionOperations), (cfi.Instruction, CallFrameInstructions)):
        classes = sorted(set(_encodable._OpcodeEncodable._per_type_storage[enumty].opcodes.values()), key=lambda c: c.__name__)
        for c in classes:
            for bo in ('little', 'big'):
                for ps in (4, 8):
                    try: res, n = verify_class(base, c, bo, ps)
                    except NotImplementedError as ex: res, n = 'unsupported: %s' % ex, 0
                    tot += n; summary.setdefault(res if res != 'OK' else 'OK', []).append(c.__name__)
    for k, v in summary.items(): print(k[:110], len(v), sorted(set(v))[:6])
    print('obligations', tot, 'time %.1fs' % (time.time() - t0))
