import itertools, gtirb, gtirb_rewriting as gr, logging
from gtirb_test_helpers import add_code_block, add_data_block, add_text_section, add_data_section, create_test_module, add_edge
from gtirb_rewriting import RewritingContext, Patch, patch_constraints
logging.disable(logging.CRITICAL)
def mkpatch(txt):
    @patch_constraints()
    def p(ctx): return txt
    return Patch.from_function(p)
PUSH = {0:("push %rax",b"\x50"),1:("push %rcx",b"\x51"),2:("push %rdx",b"\x52")}
def model(orig, mods):
    out = bytearray(); pos = 0
    for (o, l, pb, _id) in sorted(mods, key=lambda m: (m[0], m[3])):
        out += orig[pos:o]; out += pb; pos = max(pos, o + l) if True else pos
        pos = o + l
    out += orig[pos:]; return bytes(out)
def nonoverlap(mods):
    last = 0
    for (o, l, pb, _id) in sorted(mods, key=lambda m: (m[0], m[3])):
        if o < last: return False
        last = o + l
    return True
fails = 0; n = 0; errs = {}
N = 3
atoms = []
for o in range(N+1):
    atoms.append(("ins", o, 0))
    for l in range(1, N - o + 1):
        atoms.append(("rep", o, l)); atoms.append(("del", o, l))
for code in (True, False):
  for k in (1, 2, 3):
    for combo in itertools.combinations(range(len(atoms)), k):
      for perm in ([combo] if k < 2 else [combo, combo[::-1]]):
        sel = [atoms[i] for i in perm]
        mods = []
        for idx, (kind, o, l) in enumerate(sel):
            mods.append((o, l, b"" if kind == "del" else PUSH[idx][1], idx))
        if not nonoverlap(mods): continue
        # skip whole-block deletion combined with anything else (asserts)
        if any(kind == "del" and o == 0 and l == N for kind, o, l in sel) and k > 1: continue
        ir, m = create_test_module(gtirb.Module.FileFormat.ELF, gtirb.Module.ISA.X64)
        if code:
            _, bi = add_text_section(m, address=0x1000)
            b0 = add_code_block(bi, b"\x90"); b1 = add_code_block(bi, b"\x53\x56\x57"[:N]); b2 = add_code_block(bi, b"\xc3")
            add_edge(ir.cfg, b0, b1, gtirb.EdgeType.Fallthrough); add_edge(ir.cfg, b1, b2, gtirb.EdgeType.Fallthrough)
        else:
            _, bi = add_data_section(m, address=0x1000)
            b0 = add_data_block(bi, b"\x90"); b1 = add_data_block(bi, b"\x53\x56\x57"[:N]); b2 = add_data_block(bi, b"\xc3")
        orig = bytes(bi.contents)
        ctx = RewritingContext(m, [])
        for idx, (kind, o, l) in enumerate(sel):
            pt = mkpatch(PUSH[idx][0]) if code else PUSH[idx][1]
            if kind == "ins": ctx.insert_at(b1, o, pt)
            elif kind == "rep": ctx.replace_at(b1, o, l, pt)
            else: ctx.delete_at(b1, o, l)
        n += 1
        try:
            ctx.apply()
        except Exception as e:
            errs[type(e).__name__] = errs.get(type(e).__name__, 0) + 1; continue
        got = b"".join(bytes(i.contents) for i in sorted(m.byte_intervals, key=lambda i: i.address))
        exp = model(orig, [(1 + o, l, pb, i) for (o, l, pb, i) in mods])
        if got != exp:
            fails += 1
            if fails <= 5: print("MISMATCH code=%s" % code, sel, got.hex(), exp.hex())
print("scenarios", n, "mismatches", fails, "exceptions", errs)
