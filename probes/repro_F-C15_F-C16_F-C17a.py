import gtirb, uuid
import gtirb_rewriting as gr
from gtirb_rewriting._auxdata import NULL_UUID
from gtirb_rewriting import _auxdata
from gtirb_test_helpers import add_code_block, add_symbol, add_text_section, create_test_module, add_edge, add_proxy_block
from gtirb_rewriting.dwarf.cfi_eval import evaluate_cfi_directives

# C15: .cfi_restore on a register with no rule
ir, m = create_test_module(gtirb.Module.FileFormat.ELF, gtirb.Module.ISA.X64)
_, bi = add_text_section(m, address=0x1000)
b1 = add_code_block(bi, b"\x90\x90")
_auxdata.cfi_directives.set(m, {gtirb.Offset(b1,0): [(".cfi_startproc", [], NULL_UUID)], gtirb.Offset(b1,1): [(".cfi_restore", [3], NULL_UUID)], gtirb.Offset(b1,2): [(".cfi_endproc", [], NULL_UUID)]})
try:
    print("C15:", [(o, s) for _, o, s in evaluate_cfi_directives(m, [b1])])
except Exception as e:
    print("C15 raised", type(e).__name__, repr(e))

# C16: align_stack alone in a leaf function on x86-64 ELF
abi = gr.abi._X86_64_ELF()
c = gr.Constraints(align_stack=True)
regs = abi._allocate_patch_registers(c)
pro, epi, adj = abi._create_prologue_and_epilogue(c, regs, True)
print("C16 prologue(leaf, align only):", [s.code.split() for s in pro][:1][0][:6], adj)

# C17: custom shadow space not multiple of alignment
from gtirb_rewriting.patches import CallPatch
from gtirb_rewriting.abi import CallingConventionDesc
import unittest.mock
sym = add_symbol(m, "foo", add_proxy_block(m))
conv = CallingConventionDesc(registers=("RDI",), stack_alignment=16, caller_cleanup=True, shadow_space=8)
p = CallPatch(sym, args=(1,), conv=conv)
ctx = unittest.mock.MagicMock(spec=gr.InsertionContext, module=m, stack_adjustment=0)
print("C17 custom shadow:", p.get_asm(ctx).split("\n"))
