import gtirb, gtirb_rewriting as gr, collections
from gtirb_test_helpers import add_code_block, add_symbol, add_text_section, create_test_module, add_edge
from gtirb_rewriting import RewritingContext, Patch, patch_constraints
ir, m = create_test_module(gtirb.Module.FileFormat.ELF, gtirb.Module.ISA.X64)
_, bi = add_text_section(m, address=0x1000)
b1 = add_code_block(bi, b"\x90\x90"); b2 = add_code_block(bi, b"\x90\xc3")
add_edge(ir.cfg, b1, b2, gtirb.EdgeType.Fallthrough)
@patch_constraints()
def p(ctx): return "jmp .Lskip\nnop\n.Lskip:\nnop"
for rnd in range(2):
    ctx = RewritingContext(m, [])
    blk = sorted(m.code_blocks, key=lambda b: b.address)[0]
    ctx.insert_at(blk, 0, Patch.from_function(p))
    ctx.apply()
    names = collections.Counter(s.name for s in m.symbols)
    print("after rewrite", rnd + 1, dict(names))
# same context, two insertions: distinct suffixes?
