import gtirb, copy
import gtirb_rewriting as gr
from gtirb_rewriting import _auxdata, RewritingContext
from gtirb_test_helpers import add_code_block, add_data_block, add_symbol, add_text_section, create_test_module, add_edge, add_proxy_block

# C11-ish: two blocks at the same address (zero-sized + next): visiting order
ir, m = create_test_module(gtirb.Module.FileFormat.ELF, gtirb.Module.ISA.X64)
_, bi = add_text_section(m, address=0x1000)
z = add_code_block(bi, b"")          # zero-sized at 0x1000
b = add_code_block(bi, b"\x90\xc3")  # also at 0x1000
print("addresses", z.address, b.address, "sizes", z.size, b.size)
ctx = RewritingContext(m, [])
order = []
@gr.patch_constraints()
def p(ic):
    order.append(ic.block.size); return ".Ltmp:\nnop"
try:
    ctx.insert_at(b, 0, gr.Patch.from_function(p))
    ctx.insert_at(z, 0, gr.Patch.from_function(p))
    ctx.apply()
    print("order visited (block sizes):", order, sorted(s.name for s in m.symbols))
except AssertionError as e:
    print("assert", e)

# C10: empty apply identity on a simple module with alignment table
ir, m = create_test_module(gtirb.Module.FileFormat.ELF, gtirb.Module.ISA.X64)
_, bi = add_text_section(m, address=0x1000)
b1 = add_code_block(bi, b"\x90"); b2 = add_code_block(bi, b"\x90\xc3")
_auxdata.alignment.set(m, {b2: 16})
before = (bytes(bi.contents), [(x.offset,x.size) for x in sorted(bi.blocks,key=lambda x:x.offset)])
RewritingContext(m, []).apply()
bis = list(m.byte_intervals)
print("C10 before", before, "after", [(bytes(i.contents), [(x.offset,x.size,type(x).__name__) for x in sorted(i.blocks,key=lambda x:x.offset)]) for i in bis])
