import gtirb, gtirb_rewriting as gr
from gtirb_rewriting import _auxdata
from gtirb_test_helpers import add_code_block, add_symbol, add_text_section, create_test_module, add_edge
from gtirb_rewriting import RewritingContext, Patch, patch_constraints
def run(which):
    ir, m = create_test_module(gtirb.Module.FileFormat.ELF, gtirb.Module.ISA.X64)
    _, bi = add_text_section(m, address=0x1000)
    b1 = add_code_block(bi, b"\x90\x90")
    b2 = add_code_block(bi, b"\x90\xc3")
    add_symbol(m, "b1", b1); add_symbol(m, "b2", b2)
    add_edge(ir.cfg, b1, b2, gtirb.EdgeType.Fallthrough)
    @patch_constraints()
    def p(ctx): return "lea b1(%rip), %rax"
    ctx = RewritingContext(m, [])
    ctx.insert_at([b1, b2][which], 1, Patch.from_function(p))
    ctx.apply()
    bis = list(m.byte_intervals)
    sizes = _auxdata.symbolic_expression_sizes.get(m)
    print("insert into block", which+1, "symexprs", {(hex(i.address+k)): type(v).__name__ for i in bis for k, v in i.symbolic_expressions.items()},
          "symbolicExpressionSizes", {hex(k.element_id.address + k.displacement): v for k, v in (sizes or {}).items()})
run(0); run(1)
