# Throwaway: execute REAL prologue/epilogue text of IA32, ARM64, MIPS32 on a z3 machine (calibration for C16)
import time, re, itertools
from z3 import *
import gtirb_rewriting as gr
from gtirb_rewriting.abi import _PatchRegisterAllocation
class M:
    def __init__(s, regs, w):
        s.w = w; s.sp = Int('sp0'); s.sp0 = s.sp
        s.reg = {r: Int('r0_'+r) for r in regs}; s.reg0 = dict(s.reg)
        s.flags = Int('fl0'); s.flags0 = s.flags
        s.mem = Array('mem0', IntSort(), IntSort()); s.writes = []; s.reads_ok = []; s.align_ok = []
    def st(s, a, v): s.mem = Store(s.mem, a, v); s.writes.append(a)
    def ld(s, a):
        s.reads_ok.append(Or([a == w for w in s.writes]) if s.writes else BoolVal(False)); return s.mem[a]
def run_x86_32(m, text):
    for line in text.strip().splitlines():
        t = line.split(); op = t[0]; args = ''.join(t[1:])
        if op == 'push': m.sp -= 4; m.st(m.sp, m.reg[args[1:]])
        elif op == 'pop': m.reg[args[1:]] = m.ld(m.sp); m.sp += 4
        elif op == 'pushfd': m.sp -= 4; m.st(m.sp, m.flags)
        elif op == 'popfd': m.flags = m.ld(m.sp); m.sp += 4
        elif op == 'mov' and args == '%esp,%eax': m.reg['eax'] = m.sp
        elif op == 'mov' and args == '%eax,%esp': m.sp = m.reg['eax']
        elif op == 'lea' and args == '-0x80(%esp),%esp': m.sp = m.sp - 128
        elif op == 'and' and args == '$-0x10,%esp': m.sp = m.sp - m.sp % 16
        else: raise Exception('unmodelled ' + line)
def run_arm64(m, text):
    for line in text.strip().splitlines():
        line = line.strip()
        if not line: continue
        mo = re.fullmatch(r'stp (\w+), (\w+), \[sp, #-16\]!', line)
        if mo: m.sp -= 16; m.align_ok.append(m.sp % 16 == 0); m.st(m.sp, m.reg[mo[1]]); m.st(m.sp + 8, m.reg[mo[2]]); continue
        mo = re.fullmatch(r'ldp (\w+), (\w+), \[sp\], #16', line)
        if mo: m.align_ok.append(m.sp % 16 == 0); a = m.ld(m.sp); b = m.ld(m.sp + 8); m.reg[mo[1]] = a; m.reg[mo[2]] = b; m.sp += 16; continue
        mo = re.fullmatch(r'str (\w+), \[sp, #-16\]!', line)
        if mo: m.sp -= 16; m.align_ok.append(m.sp % 16 == 0); m.st(m.sp, m.reg[mo[1]]); continue
        mo = re.fullmatch(r'ldr (\w+), \[sp\], #16', line)
        if mo: m.align_ok.append(m.sp % 16 == 0); m.reg[mo[1]] = m.ld(m.sp); m.sp += 16; continue
        mo = re.fullmatch(r'mrs (\w+), nzcv', line)
        if mo: m.reg[mo[1]] = m.flags; continue
        mo = re.fullmatch(r'msr nzcv, (\w+)', line)
        if mo: m.flags = m.reg[mo[1]]; continue
        raise Exception('unmodelled ' + line)
def run_mips(m, text):
    for line in text.strip().splitlines():
        line = line.strip()
        mo = re.fullmatch(r'addiu \$sp, \$sp, (-?\d+)', line)
        if mo: m.sp += int(mo[1]); continue
        mo = re.fullmatch(r'sw \$(\w+), (\d+)\(\$sp\)', line)
        if mo: m.st(m.sp + int(mo[2]), m.reg[mo[1]]); continue
        mo = re.fullmatch(r'lw \$(\w+), (\d+)\(\$sp\)', line)
        if mo: m.reg[mo[1]] = m.ld(m.sp + int(mo[2])); continue
        raise Exception('unmodelled ' + line)
def check(abi, runner, w, regs_sel, flags, align, leaf, scratch=0, tag=''):
    allregs = [r.name for r in abi.all_registers()]
    c = gr.Constraints(clobbers_flags=flags, align_stack=align, scratch_registers=scratch, clobbers_registers={r for r in regs_sel})
    ra = abi._allocate_patch_registers(c)
    declared = [r.name for r in ra.clobbered_registers]
    pro, epi, adj = abi._create_prologue_and_epilogue(c, ra, leaf)
    epi = list(epi)
    declared_after = [r.name for r in ra.clobbered_registers]   # ARM64 may append flags_reg
    m = M(allregs, w)
    for s in pro: runner(m, s.code)
    sp_body = m.sp
    for r in declared: m.reg[r] = FreshInt('h')
    if flags: m.flags = FreshInt('hf')
    hm = FreshConst(ArraySort(IntSort(), IntSort())); a = Int('a'); old = m.mem
    m.mem = Lambda([a], If(a < sp_body, hm[a], old[a]))
    for s in epi: runner(m, s.code)
    goals = {'sp': m.sp == m.sp0, 'flags': m.flags == m.flags0}
    for r in allregs: goals['reg_' + r] = m.reg[r] == m.reg0[r]
    goals['below_sp'] = And([wa < m.sp0 for wa in m.writes]) if m.writes else BoolVal(True)
    goals['own_reads'] = And(m.reads_ok) if m.reads_ok else BoolVal(True)
    if adj is not None: goals['adj'] = m.sp0 - sp_body == adj
    if align and w == 4: goals['aligned'] = sp_body % 16 == 0
    pre = []
    if runner is run_arm64:
        pre.append(m.sp0 % 16 == 0); goals['sp16'] = And(m.align_ok) if m.align_ok else BoolVal(True)
    failed = []
    for k, g in goals.items():
        s = Solver(); s.set('timeout', 20000); s.add(*pre); s.add(Not(g))
        if s.check() != unsat: failed.append(k)
    return failed, declared, declared_after
tot = 0; t0 = time.time()
ia = gr.abi._IA32_PE(); names = [r.name for r in ia.all_registers()]
for n in range(0, 7):
    for flags, align in itertools.product((False, True), repeat=2):
        f, _, _ = check(ia, run_x86_32, 4, names[:n], flags, align, False); tot += 1
        if f: print('IA32', n, flags, align, 'FAILED', f)
arm = gr.abi._ARM64_ELF(); names = [r.name for r in arm._scratch_registers()]
for n in range(0, len(names) + 1):
    for flags in (False, True):
        for scratch in (0, 1):
            try:
                f, d, d2 = check(arm, run_arm64, 8, names[:n], flags, False, False, scratch=scratch); tot += 1
                if f: print('ARM64 n=%d flags=%s scratch=%d' % (n, flags, scratch), 'FAILED', f[:6], 'declared', d[-2:], '->', d2[-2:])
            except Exception as e:
                print('ARM64 n=%d flags=%s scratch=%d' % (n, flags, scratch), 'EXC', type(e).__name__, e)
mips = gr.abi._MIPS32_ELF(); names = [r.name for r in mips._scratch_registers()]
for n in range(0, len(names) + 1):
    f, _, _ = check(mips, run_mips, 4, names[:n], False, False, False); tot += 1
    if f: print('MIPS', n, 'FAILED', f)
print('configs', tot, 'time %.1fs' % (time.time() - t0))
