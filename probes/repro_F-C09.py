import gtirb, gtirb_rewriting as gr
from gtirb_test_helpers import add_code_block, add_symbol, add_text_section, create_test_module, add_edge
from gtirb_rewriting import RewritingContext, Patch, Constraints, patch_constraints

def build():
    ir, m = create_test_module(gtirb.Module.FileFormat.ELF, gtirb.Module.ISA.X64)
    _, bi = add_text_section(m, address=0x1000)
    b1 = add_code_block(bi, b"\x90")
    b2 = add_code_block(bi, b"\x90\x90")
    b3 = add_code_block(bi, b"\x90\xc3")
    add_symbol(m, "foo", b1)
    add_edge(ir.cfg, b1, b2, gtirb.EdgeType.Fallthrough)
    add_edge(ir.cfg, b2, b3, gtirb.EdgeType.Fallthrough)
    return ir, m, (b1,b2,b3)

@patch_constraints()
def jmp_foo(ctx):
    return "jmp foo"

# batch
ir, m, (b1,b2,b3) = build()
ctx = RewritingContext(m, [])
ctx.delete_at(b1, 0, b1.size)
ctx.insert_at(b3, 1, Patch.from_function(jmp_foo))
try:
    ctx.apply()
    print("batch ok", [ (str(e.label.type), e.source.address, getattr(e.target,'address',None)) for e in ir.cfg])
except Exception as e:
    print("batch FAILED:", type(e).__name__, e)

# sequential
ir, m, (b1,b2,b3) = build()
ctx = RewritingContext(m, [])
ctx.delete_at(b1, 0, b1.size)
ctx.apply()
ctx = RewritingContext(m, [])
ctx.insert_at(b3, 1, Patch.from_function(jmp_foo))
try:
    ctx.apply()
    print("sequential ok", [ (str(e.label.type), e.source.address, getattr(e.target,'address',None)) for e in ir.cfg])
except Exception as e:
    print("sequential FAILED:", type(e).__name__, e)
