import gtirb, capstone
from gtirb_rewriting.assembler import Assembler
from gtirb_rewriting.assembly import X86Syntax
from gtirb_test_helpers import create_test_module, add_symbol, add_proxy_block, add_text_section, add_data_block, add_data_section
def asm(isa, ff, text, syntax=X86Syntax.ATT):
    ir, m = create_test_module(ff, isa)
    add_symbol(m, "foo", add_proxy_block(m))
    a = Assembler(m)
    a.assemble(text, syntax)
    r = a.finalize()
    return r
r = asm(gtirb.Module.ISA.X64, gtirb.Module.FileFormat.ELF, "mov RDI, foo[rip]\nlea RSI, foo[rip]\npush foo[rip]\nmov RDX, 18446744073709551615\nmov RCX, -1\nmov R8, 4294967296", X86Syntax.INTEL)
md = capstone.Cs(capstone.CS_ARCH_X86, capstone.CS_MODE_64)
for i in md.disasm(bytes(r.text_section.data), 0): print(i.mnemonic, i.op_str)
print(r.text_section.symbolic_expressions)
for txt in ["mov x0, #0x-5", "mov x0, #-0x5", "mov x0, #0xffff", "mov x0, #0x-ffff"]:
    try:
        r = asm(gtirb.Module.ISA.ARM64, gtirb.Module.FileFormat.ELF, txt)
        md = capstone.Cs(capstone.CS_ARCH_ARM64, capstone.CS_MODE_ARM)
        print(txt, '->', [(i.mnemonic, i.op_str) for i in md.disasm(bytes(r.text_section.data), 0)])
    except Exception as e:
        print(txt, 'ERR', type(e).__name__, e)
try:
    r = asm(gtirb.Module.ISA.X64, gtirb.Module.FileFormat.ELF, "push 4294967296", X86Syntax.INTEL)
    print([(i.mnemonic, i.op_str) for i in md64.disasm(bytes(r.text_section.data), 0)])
except Exception as e: print('push big ERR', type(e).__name__, e)
