import gtirb, gtirb_rewriting as gr
from gtirb_test_helpers import add_code_block, add_symbol, add_text_section, create_test_module, add_edge
from gtirb_rewriting import RewritingContext, Patch, patch_constraints

def run(off):
    ir, m = create_test_module(gtirb.Module.FileFormat.ELF, gtirb.Module.ISA.X64)
    _, bi = add_text_section(m, address=0x1000)
    b1 = add_code_block(bi, b"\x90\x90")
    b2 = add_code_block(bi, b"\x90\xc3")
    add_symbol(m, "bar", b2)
    add_edge(ir.cfg, b1, b2, gtirb.EdgeType.Fallthrough)
    @patch_constraints()
    def p(ctx): return "jmp bar\nfoo:"
    ctx = RewritingContext(m, [])
    ctx.insert_at(b1, off, Patch.from_function(p))
    ctx.apply()
    foo = next(s for s in m.symbols if s.name == "foo")
    bi2 = next(iter(m.byte_intervals))
    pos = foo.referent.address + (foo.referent.size if foo.at_end else 0)
    print("insert at", off, "contents", bytes(bi2.contents).hex(), "foo ->", hex(pos), "at_end", foo.at_end,
          "blocks", sorted((b.address, b.size) for b in m.byte_blocks))
for off in (0, 1, 2): run(off)
