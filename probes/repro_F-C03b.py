import gtirb, gtirb_rewriting as gr
from gtirb_test_helpers import add_code_block, add_symbol, add_text_section, create_test_module, add_edge, add_function
import gtirb_functions
from gtirb_rewriting import RewritingContext, Patch, patch_constraints
def run(with_funcs, asm, off):
    ir, m = create_test_module(gtirb.Module.FileFormat.ELF, gtirb.Module.ISA.X64)
    _, bi = add_text_section(m, address=0x1000)
    b1 = add_code_block(bi, b"\x90\x90")
    b2 = add_code_block(bi, b"\x90\xc3")
    f = add_symbol(m, "f", b1); add_symbol(m, "b2", b2)
    add_edge(ir.cfg, b1, b2, gtirb.EdgeType.Fallthrough)
    funcs = []
    if with_funcs:
        add_function(m, f, b1, {b2}); funcs = gtirb_functions.Function.build_functions(m)
    @patch_constraints()
    def p(ctx): return asm
    ctx = RewritingContext(m, funcs)
    ctx.insert_at(b1, off, Patch.from_function(p))
    ctx.apply()
    bi2 = next(iter(m.byte_intervals))
    print(f"funcs={with_funcs} asm={asm!r} off={off}: bytes={bytes(bi2.contents).hex()} blocks", sorted((b.address, b.size) for b in m.byte_blocks))
    print("   edges", sorted((e.source.address, str(getattr(e.target,'address','proxy')), e.label.type.name) for e in ir.cfg))
for wf in (False, True):
    for asm in ("ret", "jmp b2"):
        for off in (1, 2):
            run(wf, asm, off)
