# Throwaway calibration for C08: CFI semantics before/after single edits around directive positions.
import itertools, logging, collections, copy, gtirb
import gtirb_rewriting as gr
from gtirb_rewriting import _auxdata, RewritingContext, Patch, patch_constraints
from gtirb_rewriting._auxdata import NULL_UUID
from gtirb_rewriting.dwarf.cfi_eval import evaluate_cfi_directives
from gtirb_test_helpers import add_code_block, add_symbol, add_text_section, create_test_module, add_edge, add_proxy_block
logging.disable(logging.CRITICAL)
def mkpatch(txt):
    @patch_constraints()
    def p(ctx): return txt
    return Patch.from_function(p)
LAYOUTS = {
  "whole":   {(0,0): ["start", "cfa8"], (1,1): ["adj8"], (1,2): ["adj-8"], (2,2): ["end"]},
  "b1only":  {(1,0): ["start", "cfa8"], (1,2): ["rem", "adj8"], (1,3): ["rest", "end"]},
  "endatb1": {(0,0): ["start", "cfa8"], (1,3): ["end"], (2,0): ["start", "cfa8"], (2,2): ["end"]},
  "two":     {(0,0): ["start", "cfa8"], (0,1): ["end"], (1,0): ["start", "cfa8"], (1,1): ["off"], (2,2): ["end"]},
}
D = {"start": (".cfi_startproc", [], NULL_UUID), "end": (".cfi_endproc", [], NULL_UUID), "cfa8": (".cfi_def_cfa", [7, 8], NULL_UUID),
     "adj8": (".cfi_adjust_cfa_offset", [8], NULL_UUID), "adj-8": (".cfi_adjust_cfa_offset", [-8], NULL_UUID),
     "rem": (".cfi_remember_state", [], NULL_UUID), "rest": (".cfi_restore_state", [], NULL_UUID), "off": (".cfi_offset", [6, -16], NULL_UUID)}
def build(layout):
    ir, m = create_test_module(gtirb.Module.FileFormat.ELF, gtirb.Module.ISA.X64)
    _, bi = add_text_section(m, address=0x1000)
    bs = [add_code_block(bi, b"\x90"), add_code_block(bi, b"\x53\x56\x57"), add_code_block(bi, b"\x90\xc3")]
    add_edge(ir.cfg, bs[0], bs[1], gtirb.EdgeType.Fallthrough); add_edge(ir.cfg, bs[1], bs[2], gtirb.EdgeType.Fallthrough)
    add_edge(ir.cfg, bs[2], add_proxy_block(m), gtirb.EdgeType.Return)
    _auxdata.cfi_directives.set(m, {gtirb.Offset(bs[b], d): [D[x] for x in v] for (b, d), v in LAYOUTS[layout].items()})
    return ir, m, bi, bs
def states(m, total):
    """state description (or None) in effect at each byte address in [0x1000, 0x1000+total)"""
    ev = []
    for blk, off, st in evaluate_cfi_directives(m, list(m.code_blocks)):
        ev.append((blk.address + off, None if st is None else (st.current.cfa, tuple(sorted(st.current.registers.items())), len(st.save_stack))))
    out = {}
    for a in range(0x1000, 0x1000 + total):
        cur = None; seen = False
        for (pos, st) in ev:
            if pos <= a: cur = st; seen = True
        out[a] = cur if seen else None
    return out, ev
stats = collections.Counter(); ex = {}
def rec(c, d): stats[c] += 1; ex.setdefault(c, d)
n = 0
PATCHES = {"plain": ("pushq %rax", 1), "cfi": ("pushq %rax\n.cfi_adjust_cfa_offset 8\npopq %rax\n.cfi_adjust_cfa_offset -8", 2)}
for layout in LAYOUTS:
    ir, m, bi, bs = build(layout); before, _ = states(m, 6)
    scen = [("ins", o, 0, pn) for o in range(4) for pn in PATCHES] + [("del", o, l, None) for o in range(3) for l in range(1, 4 - o)]
    for (op, o, l, pn) in scen:
        ir, m, bi, bs = build(layout)
        ctx = RewritingContext(m, [])
        if op == "ins": ctx.insert_at(bs[1], o, mkpatch(PATCHES[pn][0]))
        else: ctx.delete_at(bs[1], o, l)
        n += 1; desc = "layout=%s %s@%d+%d %s" % (layout, op, o, l, pn)
        try: ctx.apply()
        except Exception as e: rec("EXC " + type(e).__name__, desc + " :: " + str(e)[:60]); continue
        nbi = next(iter(m.byte_intervals)); total = nbi.size; p = total - 6 + l
        try: after, ev = states(m, total)
        except Exception as e: rec("evaluation fails after rewrite: " + type(e).__name__, desc + " :: " + str(e)[:70]); continue
        # surviving original byte at old address a -> new address
        for a in range(0x1000, 0x1006):
            rel = a - 0x1001
            if 0 <= rel < 3 and o <= rel < o + l: continue         # deleted
            na = a if (a < 0x1001 + o or (rel < o)) else a + p - l
            sb, sa = before[a], after[na]
            if (sb is None) != (sa is None): rec("in-procedure status of an original instruction changed", desc + " :: addr %x" % a)
            elif op == "ins" and sb != sa: rec("unwind state of an original instruction changed (nothing deleted)", desc + " :: addr %x %s -> %s" % (a, sb, sa))
        if op == "ins":
            # inserted bytes: covered by the procedure iff insertion point was inside (state at insertion point before)
            ip = 0x1001 + o
            inside = before.get(ip) is not None if ip < 0x1006 else False
            # at very end of a procedure the statement says it is still covered
            for k in range(p):
                sa = after[ip + k]
                if inside and sa is None: rec("inserted code not covered by the enclosing procedure", desc)
            if pn == "cfi" and inside:
                # second inserted instruction must see CFA offset +8 relative to the first
                s0, s1 = after[ip], after[ip + 1]
                if s0 is not None and s1 is not None and not (s1[0].offset == s0[0].offset + 8): rec("patch's own CFI directives lost", desc + " :: %s %s" % (s0[0], s1[0]))
print("scenarios", n)
for k, v in sorted(stats.items(), key=lambda kv: -kv[1]): print("%4d  %s\n        e.g. %s" % (v, k, ex[k]))
