# Throwaway calibration: single-modification scenarios at apply() level with independent validators
# (closure, capstone-based CFG consistency, label positions). Not evidence; only to learn what is red today.
import itertools, logging, collections, sys, uuid
import gtirb, capstone, gtirb_functions
import gtirb_rewriting as gr
from gtirb_rewriting import _auxdata, RewritingContext, Patch, patch_constraints
from gtirb_test_helpers import add_code_block, add_data_block, add_symbol, add_text_section, create_test_module, add_edge, add_proxy_block, add_function
logging.disable(logging.CRITICAL)
md = capstone.Cs(capstone.CS_ARCH_X86, capstone.CS_MODE_64); md.detail = True
def mkpatch(txt):
    @patch_constraints()
    def p(ctx): return txt
    return Patch.from_function(p)
# block templates: (bytes, terminator kind)
T = {"plain": (b"\x53\x56\x57", None), "jmp": (b"\x53\xeb\x00", "jmp"), "ret": (b"\x53\xc3", "ret"),
     "call": (b"\x53\xe8\x00\x00\x00\x00", "call"), "jcc": (b"\x53\x74\x00", "jcc")}
def build(kind, funcs):
    ir, m = create_test_module(gtirb.Module.FileFormat.ELF, gtirb.Module.ISA.X64)
    _, bi = add_text_section(m, address=0x1000)
    b0 = add_code_block(bi, b"\x90")
    data, term = T[kind]
    symx = {}
    b1 = add_code_block(bi, data)
    b2 = add_code_block(bi, b"\x90\xc3")
    g1 = add_code_block(bi, b"\xc3")      # callee g
    s0 = add_symbol(m, "f", b0); s1 = add_symbol(m, "L1", b1); s2 = add_symbol(m, "L2", b2); sg = add_symbol(m, "g", g1)
    e1 = add_symbol(m, "E1", b1); e1.at_end = True
    add_edge(ir.cfg, b0, b1, gtirb.EdgeType.Fallthrough)
    if term is None: add_edge(ir.cfg, b1, b2, gtirb.EdgeType.Fallthrough)
    elif term == "jmp":
        bi.symbolic_expressions[b1.offset + 2] = gtirb.SymAddrConst(0, s2); add_edge(ir.cfg, b1, b2, gtirb.EdgeType.Branch)
    elif term == "jcc":
        bi.symbolic_expressions[b1.offset + 2] = gtirb.SymAddrConst(0, s2)
        add_edge(ir.cfg, b1, b2, gtirb.EdgeType.Branch, conditional=True); add_edge(ir.cfg, b1, b2, gtirb.EdgeType.Fallthrough)
    elif term == "call":
        bi.symbolic_expressions[b1.offset + 2] = gtirb.SymAddrConst(0, sg)
        add_edge(ir.cfg, b1, g1, gtirb.EdgeType.Call); add_edge(ir.cfg, b1, b2, gtirb.EdgeType.Fallthrough)
    retproxy = add_proxy_block(m)
    if term == "ret": add_edge(ir.cfg, b1, retproxy, gtirb.EdgeType.Return)
    add_edge(ir.cfg, b2, retproxy, gtirb.EdgeType.Return)
    if term == "call": add_edge(ir.cfg, g1, b2, gtirb.EdgeType.Return)
    else: add_edge(ir.cfg, g1, add_proxy_block(m), gtirb.EdgeType.Return)
    fl = []
    if funcs:
        add_function(m, s0, b0, {b1, b2}); add_function(m, sg, g1)
        fl = gtirb_functions.Function.build_functions(m)
    return ir, m, bi, (b0, b1, b2, g1), fl
def insn_bounds(data):
    out = [0]; 
    for i in md.disasm(data, 0): out.append(out[-1] + i.size)
    return out
def closure_problems(ir, m):
    pr = []
    live = set(m.byte_blocks) | set(m.proxies)
    for e in ir.cfg:
        if e.source not in live: pr.append("edge source not in module")
        if e.target not in live: pr.append("edge target not in module")
    for s in m.symbols:
        if s.referent is not None and s.referent not in live: pr.append("symbol %s refers to removed block" % s.name)
    for name, t in m.aux_data.items():
        def walk(x):
            if isinstance(x, gtirb.Node):
                if isinstance(x, gtirb.ByteBlock) and x not in live: pr.append("aux %s mentions removed block" % name)
                if isinstance(x, gtirb.ProxyBlock) and x not in live: pr.append("aux %s mentions unknown proxy" % name)
                if isinstance(x, gtirb.Symbol) and x.module is not m: pr.append("aux %s mentions foreign symbol" % name)
            elif isinstance(x, gtirb.Offset): walk(x.element_id)
            elif isinstance(x, dict):
                for k, v in x.items(): walk(k); walk(v)
            elif isinstance(x, (list, tuple, set, frozenset)):
                for v in x: walk(v)
            elif hasattr(x, 'items') and not isinstance(x, (str, bytes)):
                for k, v in x.items(): walk(k); walk(v)
        walk(t.data)
    for b in m.byte_blocks:
        if b.size == 0: pr.append("zero-sized block left at %x" % b.address)
        bi = b.byte_interval
        if not (0 <= b.offset and b.offset + b.size <= bi.size): pr.append("block outside interval")
    return pr
def cfg_problems(ir, m):
    pr = []
    blocks = sorted(m.code_blocks, key=lambda b: b.address)
    fb = _auxdata.function_blocks.get(m) or {}
    for idx, b in enumerate(blocks):
        insns = list(md.disasm(bytes(b.contents), b.address))
        if sum(i.size for i in insns) != b.size: pr.append("undecodable block"); continue
        for i in insns[:-1]:
            if i.group(capstone.CS_GRP_JUMP) or i.group(capstone.CS_GRP_CALL) or i.group(capstone.CS_GRP_RET):
                pr.append("control transfer %s buried mid-block at %x" % (i.mnemonic, i.address))
        last = insns[-1] if insns else None
        out = list(b.outgoing_edges)
        kinds = collections.Counter(e.label.type.name + ("_c" if e.label.conditional else "") for e in out)
        nxt = blocks[idx + 1] if idx + 1 < len(blocks) and blocks[idx + 1].address == b.address + b.size else None
        def has_ft_to_next():
            return any(e.label.type == gtirb.EdgeType.Fallthrough and e.target is nxt for e in out)
        if last is None: continue
        is_ret = last.group(capstone.CS_GRP_RET); is_call = last.group(capstone.CS_GRP_CALL)
        is_jmp = last.group(capstone.CS_GRP_JUMP); uncond = last.mnemonic == "jmp"
        if is_ret:
            if kinds.get("Fallthrough"): pr.append("fallthrough after ret at %x" % last.address)
            if not kinds.get("Return"): pr.append("ret without return edge at %x" % last.address)
        elif is_jmp and uncond:
            if kinds.get("Fallthrough"): pr.append("fallthrough after jmp at %x" % last.address)
            if kinds.get("Branch", 0) != 1: pr.append("jmp needs exactly one branch edge at %x: %s" % (last.address, dict(kinds)))
        elif is_jmp:
            if kinds.get("Branch_c", 0) != 1: pr.append("jcc needs a conditional branch edge at %x: %s" % (last.address, dict(kinds)))
            if nxt is not None and not has_ft_to_next(): pr.append("jcc without fallthrough to next at %x" % last.address)
        elif is_call:
            if kinds.get("Call", 0) != 1: pr.append("call needs one call edge at %x: %s" % (last.address, dict(kinds)))
            if nxt is not None and not has_ft_to_next(): pr.append("call without fallthrough to next at %x" % last.address)
        else:
            if nxt is not None and not has_ft_to_next(): pr.append("ordinary instruction at %x does not fall through to next block" % last.address)
            if set(kinds) - {"Fallthrough"}: pr.append("ordinary last instruction with edges %s at %x" % (dict(kinds), last.address))
        # branch targets must match the operand's symbol
        for e in out:
            if e.label.type in (gtirb.EdgeType.Branch, gtirb.EdgeType.Call) and e.label.direct:
                bi = b.byte_interval
                tgt_syms = [x.symbol for k, x in bi.symbolic_expressions.items() if b.offset + b.size - last.size <= k < b.offset + b.size and isinstance(x, gtirb.SymAddrConst)]
                if tgt_syms and tgt_syms[0].referent is not e.target: pr.append("edge target != referent of operand symbol %s at %x" % (tgt_syms[0].name, last.address))
    return pr
PATCHES = {"plain": "pushq %rax", "jmpL2": "jmp L2", "ret": "ret", "callg": "call g", "lab": "nop\nP1:\nnop", "jmplab": "jmp L2\nP2:", "jcc": "je L2"}
stats = collections.Counter(); examples = {}; alld = {}
def record(cat, desc):
    alld.setdefault(cat, []).append(desc)
    stats[cat] += 1; examples.setdefault(cat, desc)
n = 0
for funcs in (False, True):
  for kind in T:
    bounds = insn_bounds(T[kind][0])
    scen = []
    for o in bounds:
        for pn in PATCHES: scen.append(("ins", o, 0, pn))
    for i, o in enumerate(bounds):
        for o2 in bounds[i + 1:]:
            scen.append(("del", o, o2 - o, None))
            for pn in ("plain", "ret", "jmpL2"): scen.append(("rep", o, o2 - o, pn))
    scen.append(("delproxy", 0, len(T[kind][0]), None))
    for (op, o, l, pn) in scen:
        ir, m, bi, (b0, b1, b2, g1), fl = build(kind, funcs)
        pre = cfg_problems(ir, m) + closure_problems(ir, m)
        assert not pre, (kind, pre)
        ctx = RewritingContext(m, fl)
        if op == "ins": ctx.insert_at(b1, o, mkpatch(PATCHES[pn]))
        elif op == "rep": ctx.replace_at(b1, o, l, mkpatch(PATCHES[pn]))
        elif op == "del": ctx.delete_at(b1, o, l)
        else: ctx.delete_at(b1, 0, l, retarget_to_proxy=True)
        n += 1
        desc = "funcs=%s block=%s %s@%d+%d %s" % (funcs, kind, op, o, l, pn)
        try: ctx.apply()
        except Exception as e:
            record("EXC " + type(e).__name__, desc + " :: " + str(e)[:80]); continue
        for p in set(closure_problems(ir, m)): record("closure: " + p.split(" at ")[0], desc)
        for p in set(cfg_problems(ir, m)): record("cfg: " + p.split(" at ")[0], desc + " :: " + p)
print("scenarios", n)
for k, v in sorted(stats.items(), key=lambda kv: -kv[1]): print("%4d  %s\n        e.g. %s" % (v, k, examples[k]))
for k in alld:
    if k.startswith("cfg: ordinary") or k.startswith("cfg: jcc"):
        print("==", k)
        for d in alld[k]: print("   ", d)
