import gtirb, logging
from gtirb_rewriting import RewritingContext, _auxdata
from gtirb_test_helpers import add_code_block, add_data_block, add_text_section, create_test_module, add_edge, add_proxy_block, add_symbol
logging.disable(logging.CRITICAL)
for which in ("init", "fini"):
    ir, m = create_test_module(gtirb.Module.FileFormat.ELF, gtirb.Module.ISA.X64)
    _, bi = add_text_section(m, address=0x1000)
    b = add_code_block(bi, b"\xc3"); d = add_data_block(bi, b"\x00\x00")
    add_edge(ir.cfg, b, add_proxy_block(m), gtirb.EdgeType.Return)
    (_auxdata.elf_dynamic_init if which == "init" else _auxdata.elf_dynamic_fini).set(m, b)
    ctx = RewritingContext(m, [])
    ctx.delete_at(b, 0, b.size)
    try:
        ctx.apply()
        t = (_auxdata.elf_dynamic_init if which == "init" else _auxdata.elf_dynamic_fini).get(m)
        print(which, "ok: table ->", t, "in module:", t in set(m.byte_blocks) if t is not None else None, "size", getattr(t, "size", None))
    except Exception as e:
        print(which, "FAILED", type(e).__name__, e)
