# Throwaway calibration for C02/C06: label positions and function membership after single edits.
import collections, logging
exec(open(__import__('os').path.join(__import__('os').path.dirname(__import__('os').path.abspath(__file__)), 'calib_apply_cfg_closure.py')).read().split("PATCHES = ")[0])   # reuse build(), helpers
PATCHES = {"plain": "pushq %rax", "jmpL2": "jmp L2", "ret": "ret", "lab": "nop\nP1:\nnop", "jmplab": "jmp L2\nP2:", "lab0": "P0:\nnop"}
PLAB = {"lab": ("P1", 1), "jmplab": ("P2", 2), "lab0": ("P0", 0)}   # label -> offset inside patch bytes
stats = collections.Counter(); ex = {}
def rec(c, d):
    stats[c] += 1; ex.setdefault(c, d); allx.setdefault(c, []).append(d)
allx = {}
def addr(s): return s.referent.address + (s.referent.size if s.at_end else 0)
n = 0
for funcs in (False, True):
  for kind in T:
    size1 = len(T[kind][0]); bounds = insn_bounds(T[kind][0])
    scen = [("ins", o, 0, pn) for o in bounds for pn in PATCHES]
    for i, o in enumerate(bounds):
        for o2 in bounds[i + 1:]:
            scen.append(("del", o, o2 - o, None)); scen.append(("rep", o, o2 - o, "plain")); scen.append(("rep", o, o2 - o, "lab"))
    for (op, o, l, pn) in scen:
        ir, m, bi, (b0, b1, b2, g1), fl = build(kind, funcs)
        old_total = bi.size
        ctx = RewritingContext(m, fl)
        if op == "ins": ctx.insert_at(b1, o, mkpatch(PATCHES[pn]))
        elif op == "rep": ctx.replace_at(b1, o, l, mkpatch(PATCHES[pn]))
        else: ctx.delete_at(b1, o, l)
        n += 1; desc = "funcs=%s block=%s %s@%d+%d %s" % (funcs, kind, op, o, l, pn)
        try: ctx.apply()
        except Exception as e: rec("EXC " + type(e).__name__, desc); continue
        nbi = next(iter(m.byte_intervals)); p = nbi.size - old_total + l      # patch length
        sym = {s.name: s for s in m.symbols}
        base = 0x1001
        exp = {"f": 0x1000, "L1": base, "E1": base + size1 - l + p, "L2": base + size1 - l + p}
        if pn in PLAB: exp[PLAB[pn][0]] = base + o + PLAB[pn][1]
        for name, a in exp.items():
            s = sym.get(name)
            if s is None: rec("label missing " + name, desc); continue
            if s.referent is None or s.referent.module is not m: rec("label dangling " + name, desc); continue
            if addr(s) != a: rec("label %s wrong address" % name[0:2], desc + " :: %s at %x expected %x" % (name, addr(s), a))
        # C06: every code block's function membership; blocks overlapping original f range belong to f when funcs
        if funcs:
            fb = _auxdata.function_blocks.get(m); fe = _auxdata.function_entries.get(m); fn = _auxdata.function_names.get(m)
            owner = {}
            for u, bs in fb.items():
                for b in bs:
                    if b in owner: rec("block in two functions", desc)
                    owner[b] = u
                    if b.module is not m: rec("functionBlocks mentions removed block", desc)
            fu = next(u for u, s in fn.items() if s.name == "f"); gu = next(u for u, s in fn.items() if s.name == "g")
            end_f = base + size1 - l + p + 2
            for b in m.code_blocks:
                want = fu if b.address < end_f else gu
                if owner.get(b) != want: rec("block with wrong function", desc + " :: block %x" % b.address)
            for u, es in fe.items():
                if not es <= fb.get(u, set()): rec("entries not subset of blocks", desc)
            if [b.address for b in fe[fu]] != [0x1000]: rec("entry of f moved", desc)
print("scenarios", n)
for k, v in sorted(stats.items(), key=lambda kv: -kv[1]): print("%4d  %s\n        e.g. %s" % (v, k, ex[k]))
for d in allx.get("label E1 wrong address", []): print("  ", d)
