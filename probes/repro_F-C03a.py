import gtirb, gtirb_rewriting as gr, uuid
from gtirb_rewriting import _auxdata
from gtirb_test_helpers import add_code_block, add_symbol, add_text_section, create_test_module, add_edge, add_function
import gtirb_functions
from gtirb_rewriting import RewritingContext
ir, m = create_test_module(gtirb.Module.FileFormat.ELF, gtirb.Module.ISA.X64)
_, bi = add_text_section(m, address=0x1000)
b1 = add_code_block(bi, b"\x90\xeb\x02")      # nop; jmp +2 -> b3
b2 = add_code_block(bi, b"\x90\x90")
b3 = add_code_block(bi, b"\xc3")
add_symbol(m, "b3", b3)
f = add_symbol(m, "f", b1)
add_edge(ir.cfg, b1, b3, gtirb.EdgeType.Branch)
add_edge(ir.cfg, b2, b3, gtirb.EdgeType.Fallthrough)
add_function(m, f, b1, {b2, b3})
funcs = gtirb_functions.Function.build_functions(m)
ctx = RewritingContext(m, funcs)
ctx.delete_at(b1, 1, 2)   # delete the jmp
ctx.apply()
print("blocks", sorted((b.address, b.size) for b in m.byte_blocks))
print("edges", sorted((e.source.address, getattr(e.target,'address',None), e.label.type.name) for e in ir.cfg))
