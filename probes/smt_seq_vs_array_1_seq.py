import time
from z3 import *
# Probe 1: edit_byte_interval contents + symexpr rekey as array comprehension
Byte = IntSort()
contents = Const('contents', SeqSort(Byte)); content = Const('content', SeqSort(Byte))
offset, length = Ints('offset length')
s = Solver(); s.set('timeout', 30000)
pre = And(0 <= offset, 0 <= length, offset + length <= Length(contents))
new = Concat(Extract(contents, 0, offset), content, Extract(contents, offset+length, Length(contents)-(offset+length)))
# Postcondition: prefix unchanged, inserted present, suffix shifted
i = Int('i')
delta = Length(content) - length
post = And(Length(new) == Length(contents) + delta,
   ForAll([i], Implies(And(0<=i, i<offset), new[i] == contents[i])),
   ForAll([i], Implies(And(0<=i, i<Length(content)), new[offset+i] == content[i])),
   ForAll([i], Implies(And(offset+length<=i, i<Length(contents)), new[i+delta] == contents[i])))
s.add(pre, Not(post))
t=time.time(); print('contents VC:', s.check(), round(time.time()-t,2))

# symexpr dict: dom: Array Int Bool, val: Array Int V
V = DeclareSort('V')
dom = Array('dom', IntSort(), BoolSort()); val = Array('val', IntSort(), V)
k = Int('k')
# python: {(k+delta if k>=offset else k): v for k,v in items if k<offset or k>=offset+length}
# encoded result as lambda via inverse: k' < offset -> src k'; k' >= offset+len(content) -> src k'-delta; else absent
L = Length(content)
ndom = Lambda([k], If(k < offset, dom[k], If(k - delta >= offset + length, dom[k - delta], False)))
nval = Lambda([k], If(k < offset, val[k], val[k - delta]))
# spec: for all source keys outside removed range, present at shifted key with same value; nothing else
s2 = Solver(); s2.set('timeout', 30000)
spec = And(ForAll([k], Implies(And(dom[k], Or(k<offset, k>=offset+length)), And(ndom[If(k>=offset,k+delta,k)], nval[If(k>=offset,k+delta,k)]==val[k]))),
           ForAll([k], Implies(ndom[k], Exists([i], And(dom[i], Or(i<offset,i>=offset+length), k==If(i>=offset,i+delta,i))))))
s2.add(pre, L>=0, Not(spec))
t=time.time(); print('symexpr VC:', s2.check(), round(time.time()-t,2))
