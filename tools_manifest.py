#!/usr/bin/env python3
"""regenerates MANIFEST.json from contracts/registry.json (claimed checks) + properties.jsonl (not_applicable for the rest)"""
import json, os
R = os.path.dirname(os.path.abspath(__file__))
props = [json.loads(l) for l in open(os.path.join(R, "properties.jsonl"))]
reg = json.load(open(os.path.join(R, "contracts", "registry.json")))
na_reasons = json.load(open(os.path.join(R, "contracts", "not_applicable.json"))) if os.path.exists(os.path.join(R, "contracts", "not_applicable.json")) else {}
checks, na = [], []
for p in props:
    pid = p["id"]
    if pid in reg:
        r = reg[pid]
        checks.append({
            "property_id": pid, "quick_cmd": "./check %s quick" % pid, "thorough_cmd": "./check %s thorough" % pid,
            "evidence_file": "evidence/%s.json" % pid, "replay_cmd_template": "./check %s --replay {path}" % pid,
            "engine": "pyvc",
            "level_claimed": {"category": r["level"], "text": r["level_text"], "design_ref": r.get("design_ref", "DESIGN.md section 5 / " + pid)},
            "level_note": r["level_note"], "technique": r["technique"]})
    else:
        na.append({"property_id": pid, "reason": na_reasons.get(pid, "check not built yet (build in progress, see DESIGN.md section 7)")})
m = {"version": 1, "setup_cmd": "./setup.sh",
     "hooks": {"guard": "GTIRB_REWRITING_VERIF",
               "enable": "none needed: contracts are side-car files in /verif keyed by module:qualname; the verifier re-reads and instruments the live source of /repo in memory on every run; nothing in /repo is edited",
               "baseline_off_cmd": "cd /repo && /venv/bin/python -m pytest -q -p no:cacheprovider --timeout=900 --continue-on-collection-errors",
               "source_commits": [], "add_only": True},
     "engines": [{"name": "pyvc", "path": "pyvc", "serves_properties": sorted(reg),
                  "kind_free_text": "own deductive verifier for Python: the real functions of /repo run under CPython on symbolic proxy values, all paths enumerated (decision oracle + re-execution), loops cut by side-car invariants through mechanical AST instrumentation redone on every run, callees replaced by contract stubs; verification conditions discharged by z3"}],
     "checks": checks,
     "notes": "exit codes of ./check: 0 held (KNOWN-FINDING lines allowed), 1 violation, 2 undecided, 3 checker error. See DESIGN.md.",
     "not_applicable": na}
json.dump(m, open(os.path.join(R, "MANIFEST.json"), "w"), indent=1)
print("claimed:", [c["property_id"] for c in checks], "not_applicable:", len(na))
