#!/bin/sh
# Builds the overlay venv /verif/.venv offline (python 3.12 of /venv + z3/cvc5/... from the wheelhouse).
# Idempotent. No network.
set -e
cd "$(dirname "$0")"
V=.venv
if [ ! -x "$V/bin/python" ] || ! "$V/bin/python" -c "import z3, gtirb_rewriting, jsonschema" 2>/dev/null; then
  rm -rf "$V"
  /venv/bin/python -m venv "$V"
  PIP_NO_INDEX=1 "$V/bin/pip" install -q --no-index --find-links /opt/veriftools/wheels z3-solver jsonschema >/dev/null
  SP=$("$V/bin/python" -c "import sysconfig; print(sysconfig.get_paths()['purelib'])")
  echo "import site; site.addsitedir('/venv/lib/python3.12/site-packages')" > "$SP/_overlay_repo_venv.pth"
fi
"$V/bin/python" -c "import z3, gtirb_rewriting, gtirb, jsonschema; print('setup ok: z3', z3.get_version_string(), 'gtirb_rewriting from', gtirb_rewriting.__file__)"
