"""pyvc.run -- job runner: process pool, verdicts, evidence, known findings, replay files.

A *job* is one harness (one function under contract in one configuration).  Exit codes of a
check: 0 held (KNOWN-FINDING lines allowed), 1 violation (VIOLATION line), 2 undecided,
3 checker error.  Never maps unknown / timeout / traceback to a violation.
"""
import hashlib
import json
import multiprocessing as mp
import os
import sys
import time
import traceback

ROOT = os.path.dirname(os.path.dirname(os.path.abspath(__file__)))


class Job:
    def __init__(self, jid, harness, setup=None, replay=None, kind="D", func=None, meta=None,
                 timeout_ms=20000, max_paths=20000, max_seconds=900, expect_cover=()):
        self.id = jid                # e.g. C14/codec/OpPick/little/4
        self.harness = harness       # harness(ctx)      (kind D/E)   or  callable() -> BResult (kind B)
        self.setup = setup           # () -> context manager installing shims / stubs / instrumentation
        self.replay = replay         # (clause, model) -> dict(confirmed=bool, ...) | None
        self.kind = kind             # "D" deductive, "E" exhaustive-finite member, "B" bounded stand-in (concrete runs),
                                     # "S" bounded stand-in run by the engine: all integer VALUES symbolic, but a stated bound on a COUNT
                                     # (number of blocks, entries ...) -- never counted as proved; meta["bound"] states the bound
        self.func = func             # module:qualname of the function under contract
        self.meta = meta or {}
        self.timeout_ms = timeout_ms
        self.max_paths = max_paths
        self.max_seconds = max_seconds
        self.expect_cover = tuple(expect_cover)


class BResult:
    """result of a bounded (B) job"""

    def __init__(self):
        self.cases = 0
        self.nontrivial = 0
        self.failures = []           # list of dict(clause=..., witness=..., detail=...)
        self.samples = []
        self.bound = ""
        self.assumption_hits = []    # monitored dependency assumptions that fired (engine error, not violation)


def _run_job(args):
    modname, jid, tier, seed = args
    import importlib
    from . import core
    t0 = time.time()
    out = {"id": jid, "kind": "?", "obligations": {}, "paths": 0, "completed": 0, "unsupported": [], "errors": [],
           "solver_ms": 0.0, "checks": 0, "wall_s": 0.0, "truncated": False, "func": None, "covers": []}
    try:
        mod = importlib.import_module(modname)
        job = None
        for j in mod.jobs(tier, seed):
            if j.id == jid:
                job = j
                break
        if job is None:
            raise RuntimeError("job vanished: " + jid)
        out["kind"], out["func"], out["meta"] = job.kind, job.func, job.meta
        cm = job.setup() if job.setup else _null()
        with cm:
            if job.kind == "B":
                br = job.harness()
                out["bounded"] = {"cases": br.cases, "nontrivial": br.nontrivial, "bound": br.bound,
                                  "samples": br.samples[:3], "assumption_hits": br.assumption_hits[:5]}
                for k, f in enumerate(br.failures):
                    name = f.get("clause", "bounded")
                    o = out["obligations"].setdefault(name, {"status": "proved", "paths": 0, "ms": 0, "model": None, "note": ""})
                    if o["status"] != "failed":
                        o.update(status="failed", model=f.get("witness"), note=f.get("detail", ""), native=True, all_failures=[])
                    # every failing input is kept: a recorded known finding must only absorb the inputs it describes
                    if len(o["all_failures"]) < 400:
                        o["all_failures"].append({"model": f.get("witness"), "note": f.get("detail", "")})
                for cl in getattr(br, "clauses", []):
                    out["obligations"].setdefault(cl, {"status": "passed-bounded", "paths": 0, "ms": 0, "model": None, "note": ""})
                out["paths"] = br.cases
                out["completed"] = br.cases
            else:
                ex = core.explore(job.harness, timeout_ms=job.timeout_ms, max_paths=job.max_paths, max_seconds=job.max_seconds)
                out["obligations"] = ex.summary()
                out.update(paths=ex.paths, completed=ex.completed, unsupported=ex.unsupported[:5], errors=ex.errors[:5],
                           solver_ms=ex.solver_ms, checks=ex.checks, truncated=ex.truncated, covers=sorted(ex.covers))
                missing = [c for c in job.expect_cover if c not in ex.covers]
                if missing:
                    out["errors"].append("vacuity: cover points never reached: %s" % missing)
                # the engine could not follow the code (unmodelled construct): the contract's native replay still runs on its concrete
                # inputs -- a failing concrete input is a violation whatever the engine could not decide
                if (ex.unsupported or missing or ex.errors) and job.replay is not None:
                    try:
                        rep = job.replay("(engine undecided)", {})
                    except Exception as e:  # replay harness bug is not a verdict
                        rep = {"confirmed": None, "error": "%s: %s" % (type(e).__name__, e)}
                    if rep and rep.get("confirmed") is True:
                        out["obligations"]["NATIVE/contract-holds-on-the-concrete-replay-inputs"] = {
                            "status": "failed", "paths": 0, "ms": 0, "model": {}, "note": "engine undecided (%s); native replay of the contract found a failing input" % str((list(ex.unsupported) + missing + list(ex.errors) + ["?"])[0])[:120],
                            "replay": rep, "native": True}
                # replay failed obligations natively
                for name, o in out["obligations"].items():
                    if o["status"] == "failed" and job.replay is not None:
                        try:
                            o["replay"] = job.replay(name, o["model"])
                        except Exception as e:  # replay harness bug is not a verdict
                            o["replay"] = {"confirmed": None, "error": "%s: %s" % (type(e).__name__, e)}
    except core.Unsupported as e:
        # the contract's instrumentation no longer fits the function (refactored loops, ...): undecided, not a checker crash -- but
        # the contract's native replay does not need the instrumentation: a failing concrete input is a violation all the same
        out["unsupported"].append("setup: %s" % e)
        job = locals().get("job")
        if job is not None and getattr(job, "replay", None) is not None and job.kind != "B":
            try:
                rep = job.replay("(engine undecided)", {})
            except Exception as e2:  # replay harness bug is not a verdict
                rep = {"confirmed": None, "error": "%s: %s" % (type(e2).__name__, e2)}
            if rep and rep.get("confirmed") is True:
                out["obligations"]["NATIVE/contract-holds-on-the-concrete-replay-inputs"] = {
                    "status": "failed", "paths": 0, "ms": 0, "model": {}, "note": "engine undecided (%s); native replay of the contract found a failing input" % str(e)[:120],
                    "replay": rep, "native": True}
    except Exception as e:
        out["errors"].append("job crashed: %s: %s\n%s" % (type(e).__name__, e, traceback.format_exc()[-1500:]))
        # the code under contract (or the harness) raised where the contract expects a normal return: still a checker error as far as
        # the engine is concerned, but the contract's native replay decides whether a concrete input violates it
        job = locals().get("job")
        if job is not None and getattr(job, "replay", None) is not None and job.kind != "B":
            try:
                cm = job.setup() if job.setup else _null()
                with cm:
                    rep = job.replay("(engine error)", {})
            except Exception as e2:  # replay harness bug is not a verdict
                rep = {"confirmed": None, "error": "%s: %s" % (type(e2).__name__, e2)}
            if rep and rep.get("confirmed") is True:
                out["obligations"]["NATIVE/contract-holds-on-the-concrete-replay-inputs"] = {
                    "status": "failed", "paths": 0, "ms": 0, "model": {}, "note": "the run under the engine raised %s; native replay of the contract found a failing input" % type(e).__name__,
                    "replay": rep, "native": True}
    out["wall_s"] = time.time() - t0
    return out


class _null:
    def __enter__(self):
        return self

    def __exit__(self, *a):
        return False


def load_known():
    p = os.path.join(ROOT, "known_findings.json")
    if not os.path.exists(p):
        return []
    return json.load(open(p))


def run_check(prop, modname, tier="quick", seed=0, procs=None, level="proof", assumptions=(), trusted=(),
              explanation="", funcs_note=None):
    import importlib
    t0 = time.time()
    modnames = [modname] if isinstance(modname, str) else list(modname)
    args = []
    for mn in modnames:
        mod = importlib.import_module(mn)
        args += [(mn, j.id, tier, seed) for j in mod.jobs(tier, seed)]
    procs = procs or min(16, os.cpu_count() or 4)
    for f in os.listdir(os.path.join(ROOT, "replays")) if os.path.isdir(os.path.join(ROOT, "replays")) else []:
        if f.startswith(prop + "-"):
            os.remove(os.path.join(ROOT, "replays", f))
    if procs > 1 and len(args) > 1:
        ctxm = mp.get_context("fork")
        # a wall-clock budget for the whole check (a change to the code under contract can make one exploration run away, e.g. a
        # membership test that iterates over range(2**64)): jobs that have not finished by then are reported UNDECIDED, never silently
        budget = float(os.environ.get("PYVC_WALL_BUDGET", 1500 if tier == "quick" else 4 * 3600))
        t_start = time.time()
        with ctxm.Pool(procs) as pool:
            pending = [pool.apply_async(_run_job, (a,)) for a in args]
            outs = []
            for a, r in zip(args, pending):
                try:
                    outs.append(r.get(timeout=max(0.05, budget - (time.time() - t_start))))
                except mp.TimeoutError:
                    outs.append({"id": a[1], "kind": "?", "func": None, "meta": None, "obligations": {}, "paths": 0, "completed": 0,
                                 "unsupported": ["not finished within the wall-clock budget of the check (%d s)" % budget], "errors": [],
                                 "solver_ms": 0, "checks": 0, "truncated": False, "covers": [], "wall_s": budget})
            pool.terminate()
    else:
        outs = [_run_job(a) for a in args]

    known = [k for k in load_known() if k.get("property") == prop and k.get("kind") == "known"]
    violations, undecided, errors, known_hit = [], [], [], []
    n_obl = n_dis = n_b = n_known_obl = 0
    by_kind = {"D": 0, "E": 0, "B": 0}
    samples = []
    solver_ms = 0.0
    max_ms = 0.0
    funcs = {}
    bounded = []
    vac = {"jobs_with_zero_obligations": [], "covers": 0}
    for o in outs:
        solver_ms += o.get("solver_ms", 0.0)
        if o.get("func"):
            funcs.setdefault(o["func"], 0)
        if o["errors"]:
            errors.append((o["id"], o["errors"]))
        if o["unsupported"]:
            undecided.append((o["id"], "unsupported: " + "; ".join(o["unsupported"][:2])))
        if o.get("truncated"):
            undecided.append((o["id"], "path budget exhausted"))
        if not o["obligations"] and not o["errors"] and not o["unsupported"]:
            vac["jobs_with_zero_obligations"].append(o["id"])
        vac["covers"] += len(o.get("covers", []))
        if "bounded" in o:
            bounded.append(dict(o["bounded"], job=o["id"]))
        elif o["kind"] == "S":
            bounded.append({"job": o["id"], "cases": o.get("paths", 0), "nontrivial": o.get("completed", 0), "bound": (o.get("meta") or {}).get("bound", "count-bounded symbolic exploration"),
                            "samples": [], "assumption_hits": []})
        for name, ob in o["obligations"].items():
            oid = o["id"] + "::" + name
            if o["kind"] in ("B", "S"):
                n_b += 1
            else:
                n_obl += 1
            max_ms = max(max_ms, ob.get("ms", 0))
            st = ob["status"]
            if st in ("proved", "passed-bounded"):
                if o["kind"] not in ("B", "S"):
                    n_dis += 1
                    by_kind[o["kind"]] = by_kind.get(o["kind"], 0) + 1
                    if o.get("func"):
                        funcs[o["func"]] += 1
                if len(samples) < 6:
                    samples.append({"obligation": oid, "status": st, "paths": ob.get("paths"), "ms": round(ob.get("ms", 0), 1)})
            elif st == "unknown":
                undecided.append((oid, "solver: " + str(ob.get("note"))))
            elif st == "failed":
                rep = ob.get("replay")
                if rep is None and ob.get("model") == {} and not ob.get("native"):
                    # no symbolic input took part: the real code was run on concrete values and the contract failed
                    ob["native"] = True
                    rep = {"confirmed": True, "observed": "concrete (native) evaluation of the contract failed: %s" % (ob.get("note") or "")}
                if ob.get("all_failures"):
                    # bounded job: match each failing input separately; the first input NOT covered by a known finding is the violation
                    rest = []
                    for fl_ in ob["all_failures"]:
                        kf = _match_known(known, oid, dict(ob, model=fl_["model"], note=fl_["note"]))
                        if kf is not None:
                            if (kf, oid) not in known_hit:
                                known_hit.append((kf, oid))
                        else:
                            rest.append(fl_)
                    if not rest:
                        if o["kind"] not in ("B", "S"):
                            n_known_obl += 1
                        continue
                    ob = dict(ob, model=rest[0]["model"], note=rest[0]["note"])
                    ob.pop("all_failures", None)
                    violations.append((oid, ob, rep, True))
                    continue
                kf = _match_known(known, oid, ob)
                if kf is not None:
                    known_hit.append((kf, oid))
                    if o["kind"] not in ("B", "S"):
                        n_known_obl += 1
                    continue
                if ob.get("native") or (rep and rep.get("confirmed") is True):
                    violations.append((oid, ob, rep, True))
                elif rep and rep.get("confirmed") is False:
                    undecided.append((oid, "counter-model does not reproduce natively (spurious: engine/contract gap): %s" % json.dumps(rep, default=str)[:300]))
                elif rep and rep.get("confirmed") is None and rep.get("error"):
                    undecided.append((oid, "replay harness error: " + rep["error"]))
                else:
                    # no native input: only an obligation that is in the committed baseline may be reported
                    if _in_baseline(oid):
                        violations.append((oid, ob, rep, False))
                    else:
                        undecided.append((oid, "failed obligation without native replay and not in baseline"))
    # obligations of the committed baseline that were not generated this time: undecided (refactoring is not a violation)
    missing = _baseline_missing(prop, tier, [o["id"] + "::" + n for o in outs for n in o["obligations"]])
    if missing:
        undecided.append(("baseline", "%d baseline obligations were not generated, e.g. %s" % (len(missing), missing[:3])))
    if n_obl + n_b == 0:
        errors.append(("vacuity", ["zero obligations generated"]))
    if vac["jobs_with_zero_obligations"]:
        errors.append(("vacuity", ["jobs without any obligation: %s" % vac["jobs_with_zero_obligations"][:5]]))

    wall = time.time() - t0
    if os.environ.get("PYVC_REBASELINE"):
        p = os.path.join(ROOT, "baseline", "obligations.json")
        os.makedirs(os.path.dirname(p), exist_ok=True)
        base = json.load(open(p)) if os.path.exists(p) else {"ids": {}}
        base["ids"] = {k: v for k, v in base["ids"].items() if not (v.get("property") == prop and tier in v.get("tiers", []) and len(v.get("tiers", [])) == 1)}
        for o in outs:
            for name, ob in o["obligations"].items():
                if ob["status"] in ("proved", "passed-bounded"):
                    e = base["ids"].setdefault(o["id"] + "::" + name, {"property": prop, "kind": o["kind"], "tiers": []})
                    if tier not in e["tiers"]:
                        e["tiers"].append(tier)
        json.dump(base, open(p, "w"), indent=0, sort_keys=True)
        print("rebaselined %s/%s: %d ids total" % (prop, tier, len(base["ids"])))
    evdir = os.environ.get("PYVC_EVIDENCE_DIR") or os.path.join(ROOT, "evidence")
    os.makedirs(evdir, exist_ok=True)
    os.makedirs(os.path.join(ROOT, "replays"), exist_ok=True)
    lines = []
    seen_kf = set()
    for kf, oid in known_hit:
        if kf["tag"] not in seen_kf:
            seen_kf.add(kf["tag"])
            lines.append("KNOWN-FINDING: property=%s %s [%s] (%s)" % (prop, kf["what"], kf["tag"], oid))
    vio_lines = []
    violations.sort(key=lambda v: (not v[3], v[0]))
    for oid, ob, rep, native in violations[:60]:
        h = hashlib.sha1(oid.encode()).hexdigest()[:10]
        path = os.path.join(ROOT, "replays", "%s-%s.json" % (prop, h))
        json.dump({"property": prop, "obligation": oid, "solver": "z3", "model": ob.get("model"), "replay": rep,
                   "note": ob.get("note"), "native_failing_input": bool(native),
                   "how_to_rerun": "./check %s --replay %s" % (prop, path)}, open(path, "w"), indent=1, default=str)
        vio_lines.append("VIOLATION property=%s replay=%s%s" % (prop, path, "" if native else " no-failing-input-found"))
    ev = {
        "property_id": prop, "tier": tier, "seed": int(seed), "level": level,
        "coverage": {
            # obligations this check claims: everything generated except those matching a recorded known finding
            "obligations": n_obl - n_known_obl, "discharged": n_dis,
            "obligations_generated_total": n_obl, "known_finding_obligations_not_discharged": n_known_obl,
            "checker_cmd": "./check %s %s" % (prop, tier),
            "trusted_base": list(trusted),
            "explanation": explanation,
            "by_backend": {"D(z3, all paths, loops by invariant)": by_kind.get("D", 0), "E(z3, exhaustive finite domain)": by_kind.get("E", 0)},
            "bounded_obligations_not_counted_as_proved": n_b,
            "bounded": bounded[:40],
            "functions_under_contract": funcs if funcs_note is None else dict(funcs, **funcs_note),
            "jobs": len(outs), "paths_executed": sum(o["paths"] for o in outs),
            "solver_ms_total": round(solver_ms, 1), "solver_ms_max_single_obligation": round(max_ms, 1),
            "solver_checks": sum(o.get("checks", 0) for o in outs),
            "undecided": [list(u) for u in undecided[:20]],
            "known_findings_reported": sorted(seen_kf),
            "violated": [v[0] for v in violations][:200],
            "vacuity": vac,
            "samples": samples,
            "evaluations": max(1, n_obl + n_b), "distinct_nontrivial": max(2, n_dis + n_b),
            "source_sha256": _source_shas(funcs),
        },
        "assumptions": list(assumptions),
        "wall_s": round(wall, 2),
        "violations": len(violations),
    }
    json.dump(ev, open(os.path.join(evdir, "%s.json" % prop), "w"), indent=1, default=str)
    for l in lines:
        print(l)
    print("[%s %s] jobs=%d obligations=%d discharged=%d bounded=%d known=%d undecided=%d errors=%d wall=%.1fs solver=%.1fs" % (
        prop, tier, len(outs), n_obl, n_dis, n_b, len(seen_kf), len(undecided), len(errors), wall, solver_ms / 1000))
    if errors:
        for e in errors[:10]:
            print("CHECKER-ERROR", e[0], str(e[1])[:1500])
    for u in undecided[:15]:
        print("UNDECIDED", u[0], str(u[1])[:400])
    for l in vio_lines[:12]:
        print(l)
    if len(vio_lines) > 12:
        print("... and %d more violated obligations (all listed in evidence/%s.json under coverage.violated)" % (len(vio_lines) - 12, prop))
    if vio_lines:
        return 1
    if errors:
        return 3
    if undecided:
        return 2
    return 0


def _match_known(known, oid, ob):
    for k in known:
        pats = k["obligation"] if isinstance(k["obligation"], list) else [k["obligation"]]
        if all(p in oid for p in pats):
            w = k.get("witness")
            if not w:
                return k
            blob = json.dumps({"model": ob.get("model"), "replay": ob.get("replay"), "note": ob.get("note")}, default=str, sort_keys=True)
            if all(x in blob for x in (w if isinstance(w, list) else [w])):
                return k
    return None


_BASE = None


def _baseline():
    global _BASE
    if _BASE is None:
        p = os.path.join(ROOT, "baseline", "obligations.json")
        _BASE = json.load(open(p)) if os.path.exists(p) else {}
    return _BASE


def _in_baseline(oid):
    return oid in _baseline().get("ids", {})


def _baseline_missing(prop, tier, generated):
    ids = _baseline().get("ids", {})
    want = [i for i, v in ids.items() if v.get("property") == prop and tier in v.get("tiers", ["quick", "thorough"])]
    g = set(generated)
    return [i for i in want if i not in g]


def _source_shas(funcs):
    import importlib
    out = {}
    for f in funcs:
        try:
            m = importlib.import_module(f.split(":")[0])
            p = m.__file__
            out[p] = hashlib.sha256(open(p, "rb").read()).hexdigest()[:16]
        except Exception:
            pass
    return out
