"""pyvc.containers -- dict / list values that may hold symbolic keys or have an arbitrary (symbolic) initial content.

PDict  = optional arbitrary base mapping  +  a write log.  Lookup scans the log newest to oldest
         (key comparison with `==`, branching when symbolic), then the base.  With concrete keys and
         no base this is exactly dict semantics.  Iteration over a dict with a symbolic base is not
         in the fragment (Unsupported) -- loops over such dicts need a loop contract.
PList  = optional arbitrary base list of symbolic length  +  a concrete python list of appended items.
"""
import z3

from . import core
from .core import Unsupported
from .sym import SymBool, SymInt, is_sym, mk_bool, mk_int, zbool, zint

_MISSING = object()


def _keq(a, b):
    """truth of a == b on this path (branches if symbolic)"""
    if a is b:
        return True
    r = a == b
    if isinstance(r, SymBool):
        return core.CUR.branch(r.term)
    return bool(r)


class MapBase:
    """an arbitrary initial mapping: has(k) -> z3 Bool term ; get(k) -> value (a function of k)"""

    def __init__(self, has, get, name="base"):
        self.has, self.get, self.name = has, get, name

    def key(self, k):
        """z3 term of a key this mapping may contain, else None"""
        if isinstance(k, (int, SymInt)) and not isinstance(k, bool):
            return zint(k)
        return None


class PDict:
    # code under contract may type-test what it is handed: the proxy answers isinstance(x, dict) like the value it stands for
    __class__ = property(lambda self: dict)
    def __init__(self, pairs=(), base=None):
        self.log = []            # ("set", k, v) | ("del", k, None)
        self.base = base
        for k, v in pairs:
            self.log.append(("set", k, v))

    # ---- core lookup
    def _find(self, k):
        for op, ek, v in reversed(self.log):
            if op == "merge":
                raise Unsupported("lookup in a dict after update() from a comprehension over symbolic content")
            if _keq(k, ek):
                return v if op == "set" else _MISSING
        if self.base is not None:
            zk = self.base.key(k)
            if zk is None:
                return _MISSING
            if core.CUR.branch(self.base.has(zk)):
                v = self.base.get(k)
                if getattr(self.base, "materialize", False):
                    # mutable values: later lookups of the same key must return the same object
                    self.log.append(("set", k, v))
                return v
        return _MISSING

    def __getitem__(self, k):
        v = self._find(k)
        if v is _MISSING:
            raise KeyError(k)
        return v

    def __setitem__(self, k, v):
        if self.base is None and not is_sym(k):
            # keep the log free of shadowed concrete entries
            self.log = [e for e in self.log if is_sym(e[1]) or not (e[1] == k)]
        self.log.append(("set", k, v))

    def __delitem__(self, k):
        if self._find(k) is _MISSING:
            raise KeyError(k)
        self.log.append(("del", k, None))

    def __contains__(self, k):
        return self._find(k) is not _MISSING

    def get(self, k, default=None):
        v = self._find(k)
        return default if v is _MISSING else v

    def pop(self, k, *default):
        v = self._find(k)
        if v is _MISSING:
            if default:
                return default[0]
            raise KeyError(k)
        self.log.append(("del", k, None))
        return v

    def setdefault(self, k, default=None):
        v = self._find(k)
        if v is _MISSING:
            self.log.append(("set", k, default))
            return default
        return v

    def update(self, other=(), **kw):
        if isinstance(other, CompDict):
            # d.update({K(k, v): V(k, v) for k, v in src.items()}) with arbitrary src: recorded, interrogated by the contract
            self.log.append(("merge", other, None))
            return
        if isinstance(other, PDict):
            if other.base is not None:
                if self.log or self.base is not None:
                    raise Unsupported("update of a non-empty dict from a dict with symbolic initial content")
                self.log = list(other.log)
                self.base = other.base
                return
            # a finite dict (possibly with symbolic keys): entry by entry
            for k, v in other._concrete_items():
                self[k] = v
        elif hasattr(other, "keys"):
            for k in other.keys():
                self[k] = other[k]
        else:
            for k, v in other:
                self[k] = v
        for k, v in kw.items():
            self[k] = v

    def __copy__(self):
        d = PDict(base=self.base)
        d.log = list(self.log)
        return d

    def clear(self):
        self.log = []
        self.base = None

    copy = __copy__

    # ---- whole-dict views (concrete structure only)
    def _concrete_items(self):
        if self.base is not None:
            raise Unsupported("iteration over a dict with symbolic initial content (needs a loop contract)")
        out = []
        for op, k, v in self.log:
            hit = None
            for i, (ek, _) in enumerate(out):
                if _keq(k, ek):
                    hit = i
                    break
            if op == "set":
                if hit is None:
                    out.append((k, v))
                else:
                    out[hit] = (out[hit][0], v)
            elif hit is not None:
                del out[hit]
        return out

    def items(self):
        if self.base is not None:
            return SymItems(self)
        return list(self._concrete_items())

    def keys(self):
        return [k for k, _ in self._concrete_items()]

    def values(self):
        if self.base is not None:
            return SymItems(self, "values")
        return [v for _, v in self._concrete_items()]

    def __iter__(self):
        return iter(self.keys())

    def __len__(self):
        return len(self._concrete_items())

    def __bool__(self):
        if self.base is not None:
            b = getattr(self.base, "nonempty", None)
            if b is None:
                raise Unsupported("truth value of a dict with symbolic initial content")
            if not self.log:
                return core.CUR.branch(b)
            raise Unsupported("truth value of a modified dict with symbolic initial content")
        return bool(self._concrete_items())

    def __eq__(self, o):
        if isinstance(o, (PDict, dict)) and self.base is None and not isinstance(o, PDict):
            return dict(self._concrete_items()) == o
        if isinstance(o, PDict) and self.base is None and o.base is None:
            a, b = self._concrete_items(), o._concrete_items()
            if len(a) != len(b):
                return False
            for k, v in a:
                w = o._find(k)
                if w is _MISSING:
                    return False
                r = v == w
                if isinstance(r, SymBool):
                    r = core.CUR.branch(r.term)
                if not r:
                    return False
            return True
        raise Unsupported("== on dicts with symbolic initial content (compare pointwise in the contract)")

    def __ne__(self, o):
        return not self.__eq__(o)

    __hash__ = None

    def __repr__(self):
        return "PDict(%s%s)" % (self.log, ", base=%s" % self.base.name if self.base else "")


def mkdict(pairs):
    return PDict(pairs)


class PList:
    __class__ = property(lambda self: list)
    """list with an arbitrary initial content of symbolic length n (base(i) for 0 <= i < n) and appended items"""

    def __init__(self, n=0, base=None, items=()):
        self.n = n                  # int | SymInt : remaining length of the base part
        self.base = base            # i (int|SymInt) -> value
        self.items = list(items)
        self.writes = []            # (index, value) assignments to the base part, oldest first

    def __setitem__(self, i, v):
        self.writes.append((i, v))

    def append(self, x):
        self.items.append(x)

    def pop(self, *a):
        if a and a[0] != -1:
            raise Unsupported("PList.pop(i)")
        if self.items:
            return self.items.pop()
        if isinstance(self.n, int):
            if self.n <= 0:
                raise IndexError("pop from empty list")
        elif not core.CUR.branch(zint(self.n) > 0):
            raise IndexError("pop from empty list")
        self.n = mk_int(zint(self.n) - 1)
        return self.base(self.n)

    def __pyvc_len__(self):
        return mk_int(zint(self.n) + len(self.items))

    def __len__(self):
        if isinstance(self.n, int):
            return self.n + len(self.items)
        raise Unsupported("len() of a symbolic-length list outside the shim")

    def __bool__(self):
        if self.items:
            return True
        if isinstance(self.n, int):
            return self.n > 0
        return core.CUR.branch(zint(self.n) > 0)

    def _concrete(self):
        out = [self.base(i) for i in range(self.n)]
        for i, v in self.writes:
            if not isinstance(i, int):
                raise Unsupported("read of a list after a write at a symbolic index")
            out[i] = v
        return out + list(self.items)

    def __iter__(self):
        if isinstance(self.n, int):
            return iter(self._concrete())
        raise Unsupported("iteration over a symbolic-length list (needs a loop contract)")

    def __getitem__(self, i):
        if isinstance(i, int) and i < 0 and -i <= len(self.items):
            return self.items[i]
        if isinstance(self.n, int) and isinstance(i, int):
            return self._concrete()[i]
        raise Unsupported("PList index")

    def __copy__(self):
        c = PList(self.n, self.base, self.items)
        c.writes = list(self.writes)
        return c

    def __repr__(self):
        return "PList(n=%s, +%d)" % (self.n, len(self.items))


def bytes_join(sep, parts):
    """model of bytes.join for proxy byte strings (identical to bytes.join on concrete parts)"""
    from .sym import SymBytes
    parts = list(parts)
    if all(isinstance(p, (bytes, bytearray)) for p in parts):
        return sep.join(parts)
    for p in parts:
        if hasattr(p, "__pyvc_join_all__"):
            if len(parts) != 1 or sep:
                raise Unsupported("join of a generic element with other parts")
            return p.__pyvc_join_all__()
    return SymBytes.of(sep).join(parts)


class SymItems:
    """`d.items()` of a dict with arbitrary (symbolic) content: only consumable by a comprehension model"""

    def __init__(self, d, what="items"):
        self.d, self.what = d, what

    def __iter__(self):
        raise Unsupported("iteration over the %s of a dict with symbolic initial content (needs a loop contract)" % self.what)


class CompDict:
    __class__ = property(lambda self: dict)
    """result of  {K(k, v): V(k, v) for k, v in d.items() if C(k, v)}  over a dict d with arbitrary content.
    It is not looked into by the code under contract; the contract interrogates `entry(k)`: for an arbitrary source
    key k, (present in d, condition, new key, new value) -- i.e. the comprehension's own code run on a symbolic entry."""

    def __init__(self, src, f):
        self.src, self.f = src, f
        self.log = []               # writes performed on the result afterwards: ("set", key, value)
        # A comprehension is evaluated when it is executed: variables it reads may change afterwards (join_blocks adds to
        # block1.size after building {block1.size + k: v ...}).  The body is therefore run NOW on a generic entry (k0, v0);
        # entry(k) instantiates the result.  If the body needs a symbolic truth test (chained comparison, and/or) this
        # is not possible without splitting the path on k0: the model then falls back to running the body at
        # interrogation time, which is only faithful if the variables it reads are not modified in between (ints held
        # in locals are immutable; this is the case for the comprehensions of edit_byte_interval and split_block).
        self.eager = None
        ctx = core.CUR
        if ctx is not None and src.base is not None and not getattr(src.base, "materialize", False):
            k0 = z3.Int(ctx.fresh_name("comp_k"))
            v0 = src.base.get(mk_int(k0))
            old = getattr(ctx, "no_branch", False)
            ctx.no_branch = True
            try:
                key0, val0, cond0 = f((mk_int(k0), v0))
                if isinstance(key0, (int, SymInt)) and isinstance(cond0, (bool, SymBool)) and val0 is v0:
                    self.eager = (k0, zint(key0), cond0 if isinstance(cond0, bool) else cond0.term)
            except core.NoBranch:
                pass
            finally:
                ctx.no_branch = old

    def __setitem__(self, k, v):
        self.log.append(("set", k, v))

    def entry(self, k):
        v = self.src.base.get(k)
        if self.eager is not None:
            k0, key0, cond0 = self.eager
            key = mk_int(z3.substitute(key0, (k0, zint(k))))
            cond = cond0 if isinstance(cond0, bool) else mk_bool(z3.substitute(cond0, (k0, zint(k))))
            return key, v, cond, v
        key, val, cond = self.f((k, v))
        return key, val, cond, v

    def _boom(self, *a, **kw):
        raise Unsupported("the code looked into a dict built by a comprehension over symbolic content")

    __getitem__ = __contains__ = __iter__ = __len__ = get = items = keys = values = update = pop = _boom

    def __bool__(self):
        raise Unsupported("truth value of a comprehension over symbolic content")


def dictcomp(it, f):
    """model of a dict comprehension with one generator (identical to the comprehension on ordinary iterables)"""
    if isinstance(it, SymItems):
        if it.d.log:
            raise Unsupported("comprehension over a modified symbolic dict")
        return CompDict(it.d, f)
    out = {}
    for x in it:
        k, v, c = f(x)
        if c:
            out[k] = v
    return out
