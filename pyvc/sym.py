"""pyvc.sym -- symbolic proxy values on which the real code runs.

Semantics assumed (and cross-checked against CPython by selftest/crosscheck.py):
* SymInt is a mathematical integer (exact for Python ints).
* // and % are floor division / modulus with the sign of the divisor.
* bit operations with one concrete operand are rewritten to div/mod arithmetic that is
  valid for *all* integers under Python's infinite two's complement reading:
      x & m (m>=0)  = sum over set bits k of m of ((x div 2^k) mod 2) * 2^k, contiguous low masks as x mod 2^k
      x & m (m<0)   = x - (x & ~m)
      x | c         = x + c - (x & c)          x ^ c = x + c - 2*(x & c)
      x >> k        = x div 2^k                x << k = x * 2^k          ~x = -x-1
* anything that would hand a symbolic value to C code that needs a machine value
  (__index__, __hash__, symbolic __len__) raises Unsupported: loud, never silently wrong.
"""
import z3

from . import core
from .core import Unsupported


def ctx():
    c = core.CUR
    if c is None:
        raise Unsupported("symbolic value used outside of an exploration")
    return c


def is_sym(v):
    return isinstance(v, (SymInt, SymBool, SymBytes)) or getattr(v, "__pyvc_symbolic_key__", False)


def zint(v):
    if isinstance(v, SymInt):
        return v.term
    if isinstance(v, SymBool):
        return z3.If(v.term, z3.IntVal(1), z3.IntVal(0))
    if isinstance(v, bool):
        return z3.IntVal(1 if v else 0)
    if isinstance(v, int):
        return z3.IntVal(v)
    if z3.is_expr(v):
        return v
    raise Unsupported("not an integer: %r" % (type(v),))


def zbool(v):
    if isinstance(v, SymBool):
        return v.term
    if isinstance(v, bool):
        return z3.BoolVal(v)
    if isinstance(v, SymInt):
        return v.term != 0
    if isinstance(v, int):
        return z3.BoolVal(v != 0)
    if z3.is_expr(v):
        return v
    raise Unsupported("not a boolean: %r" % (type(v),))


def mk_int(t):
    t = z3.simplify(t)
    if z3.is_int_value(t):
        return t.as_long()
    return SymInt(t)


def mk_bool(t):
    t = z3.simplify(t)
    if z3.is_true(t):
        return True
    if z3.is_false(t):
        return False
    return SymBool(t)


def _is_intlike(o):
    return isinstance(o, (int, SymInt, SymBool))


def _pow2(k):
    return 1 << k


def _and_const(xt, m):
    """x & m for a concrete mask m, x a z3 Int term"""
    if m == 0:
        return z3.IntVal(0)
    if m == -1:
        return xt
    if m < 0:
        return xt - _and_const(xt, ~m)
    # m > 0 : split into maximal runs of set bits  [lo, hi)
    res = None
    k = 0
    while (m >> k) != 0:
        if (m >> k) & 1:
            lo = k
            while (m >> k) & 1:
                k += 1
            hi = k
            part = ((xt / _pow2(lo)) % _pow2(hi - lo)) * _pow2(lo) if lo else (xt % _pow2(hi))
            res = part if res is None else res + part
        else:
            k += 1
    return res


class SymBool:
    __slots__ = ("term",)

    def __init__(self, term):
        self.term = term

    def __bool__(self):
        return ctx().branch(self.term)

    def __eq__(self, o):
        if isinstance(o, (bool, SymBool)):
            return mk_bool(self.term == zbool(o))
        if isinstance(o, (int, SymInt)):
            return mk_bool(zint(self) == zint(o))
        return False

    def __ne__(self, o):
        r = self.__eq__(o)
        return (not r) if isinstance(r, bool) else mk_bool(z3.Not(r.term))

    def __hash__(self):
        raise Unsupported("hash of a symbolic bool")

    def __and__(self, o):
        if isinstance(o, (bool, SymBool)):
            return mk_bool(z3.And(self.term, zbool(o)))
        return NotImplemented

    __rand__ = __and__

    def __or__(self, o):
        if isinstance(o, (bool, SymBool)):
            return mk_bool(z3.Or(self.term, zbool(o)))
        return NotImplemented

    __ror__ = __or__

    def __invert__(self):
        raise Unsupported("~ on symbolic bool")

    def __add__(self, o):
        return SymInt(zint(self)) + o

    __radd__ = __add__

    def __index__(self):
        raise Unsupported("symbolic bool used as an index")

    def __repr__(self):
        return "SymBool(%s)" % self.term

    def __format__(self, spec):
        raise Unsupported("format of symbolic bool")


class SymInt:
    __slots__ = ("term",)

    def __init__(self, term):
        self.term = term

    # ---- conversions that must stay loud
    def __index__(self):
        raise Unsupported("symbolic int handed to C code (__index__)")

    def __hash__(self):
        # used as a key of a real dict/set: enumerate the (finitely many) values it can take on this path
        return hash(ctx().concretize(self.term))

    def __int__(self):
        raise Unsupported("int() of a symbolic int outside the shim")

    def __bool__(self):
        return ctx().branch(self.term != 0)

    def __repr__(self):
        return "SymInt(%s)" % self.term

    # ---- text
    def __format__(self, spec):
        return hole(self, spec)

    def __str__(self):
        return hole(self, "")

    # ---- arithmetic
    def __add__(self, o):
        return mk_int(self.term + zint(o)) if _is_intlike(o) else NotImplemented

    __radd__ = __add__

    def __sub__(self, o):
        return mk_int(self.term - zint(o)) if _is_intlike(o) else NotImplemented

    def __rsub__(self, o):
        return mk_int(zint(o) - self.term) if _is_intlike(o) else NotImplemented

    def __mul__(self, o):
        return mk_int(self.term * zint(o)) if _is_intlike(o) else NotImplemented

    __rmul__ = __mul__

    def __neg__(self):
        return mk_int(-self.term)

    def __pos__(self):
        return self

    def __abs__(self):
        return mk_int(z3.If(self.term >= 0, self.term, -self.term))

    def __invert__(self):
        return mk_int(-self.term - 1)

    def _divmod(self, a, b):
        """(floor div, python mod) of z3 terms a, b (b concrete int or term)"""
        if isinstance(b, int):
            if b == 0:
                raise ZeroDivisionError("integer division or modulo by zero")
            if b > 0:
                return a / b, a % b
            q = (-a) / (-b)
            return q, -((-a) % (-b))
        c = ctx()
        if c.branch(b == 0):
            raise ZeroDivisionError("integer division or modulo by zero")
        if c.branch(b > 0):
            return a / b, a % b
        return (-a) / (-b), -((-a) % (-b))

    def __floordiv__(self, o):
        if not _is_intlike(o):
            return NotImplemented
        o = o if isinstance(o, int) and not isinstance(o, bool) else zint(o)
        return mk_int(self._divmod(self.term, o)[0])

    def __rfloordiv__(self, o):
        if not _is_intlike(o):
            return NotImplemented
        return mk_int(self._divmod(zint(o), self.term)[0])

    def __mod__(self, o):
        if not _is_intlike(o):
            return NotImplemented
        o = o if isinstance(o, int) and not isinstance(o, bool) else zint(o)
        return mk_int(self._divmod(self.term, o)[1])

    def __rmod__(self, o):
        if not _is_intlike(o):
            return NotImplemented
        return mk_int(self._divmod(zint(o), self.term)[1])

    def __divmod__(self, o):
        return (self // o, self % o)

    def __truediv__(self, o):
        raise Unsupported("true division on symbolic int")

    def __pow__(self, o, mod=None):
        if isinstance(o, int) and 0 <= o <= 4 and mod is None:
            r = z3.IntVal(1)
            for _ in range(o):
                r = r * self.term
            return mk_int(r)
        raise Unsupported("** with symbolic operand")

    def __rpow__(self, o):
        raise Unsupported("** with symbolic exponent")

    # ---- bit operations
    def __and__(self, o):
        if isinstance(o, bool):
            o = int(o)
        if isinstance(o, int):
            return mk_int(_and_const(self.term, o))
        if isinstance(o, SymInt):
            raise Unsupported("& of two symbolic ints")
        return NotImplemented

    __rand__ = __and__

    def __or__(self, o):
        if isinstance(o, int):
            return mk_int(self.term + o - _and_const(self.term, int(o)))
        if isinstance(o, SymInt):
            return _or_disjoint(self, o)
        return NotImplemented

    __ror__ = __or__

    def __xor__(self, o):
        if isinstance(o, int):
            return mk_int(self.term + o - 2 * _and_const(self.term, int(o)))
        if isinstance(o, SymInt):
            raise Unsupported("^ of two symbolic ints")
        return NotImplemented

    __rxor__ = __xor__

    def __rshift__(self, o):
        if isinstance(o, int) and o >= 0:
            return mk_int(self.term / _pow2(o))
        raise Unsupported(">> by symbolic amount")

    def __lshift__(self, o):
        if isinstance(o, int) and o >= 0:
            return mk_int(self.term * _pow2(o))
        if isinstance(o, SymInt):
            return mk_int(self.term * _sym_pow2(o))
        raise Unsupported("<< by symbolic amount")

    def __rlshift__(self, o):
        if isinstance(o, int) and not isinstance(o, bool):
            return mk_int(o * _sym_pow2(self))
        raise Unsupported("<< by symbolic amount")

    def __rrshift__(self, o):
        raise Unsupported(">> by symbolic amount")

    # ---- comparisons
    def __eq__(self, o):
        if _is_intlike(o):
            return mk_bool(self.term == zint(o))
        return False

    def __ne__(self, o):
        if _is_intlike(o):
            return mk_bool(self.term != zint(o))
        return True

    def __lt__(self, o):
        return mk_bool(self.term < zint(o)) if _is_intlike(o) else NotImplemented

    def __le__(self, o):
        return mk_bool(self.term <= zint(o)) if _is_intlike(o) else NotImplemented

    def __gt__(self, o):
        return mk_bool(self.term > zint(o)) if _is_intlike(o) else NotImplemented

    def __ge__(self, o):
        return mk_bool(self.term >= zint(o)) if _is_intlike(o) else NotImplemented

    # ---- int API used by the code under contract
    def to_bytes(self, length=1, byteorder="big", *, signed=False):
        return int_to_bytes(self, length, byteorder, signed)

    def bit_length(self):
        # number of bits of |x|: complete case split over the (at most 129) possible answers
        c = ctx()
        a = z3.If(self.term >= 0, self.term, -self.term)
        conds = [a == 0] + [z3.And(a >= (1 << (k - 1)), a < (1 << k)) for k in range(1, 129)] + [a >= (1 << 128)]
        k = c.case(conds, "bit_length")
        if k == 129:
            raise Unsupported("bit_length of an integer beyond 128 bits")
        return k


def int_to_bytes(v, length, byteorder, signed):
    """int.to_bytes for a possibly symbolic v: OverflowError outside the range, else the digits"""
    if not isinstance(length, int) or not isinstance(byteorder, str):
        raise Unsupported("to_bytes with symbolic length/byteorder")
    if byteorder not in ("little", "big"):
        raise ValueError("byteorder must be either 'little' or 'big'")
    if not is_sym(v):
        return SymBytes.lit(int(v).to_bytes(length, byteorder, signed=signed))
    t = zint(v)
    lo, hi = (-(1 << (8 * length - 1)), 1 << (8 * length - 1)) if signed and length else (0, 1 << (8 * length))
    c = ctx()
    if not c.branch(z3.And(t >= lo, t < hi)):
        if not signed and c.branch(t < 0):
            raise OverflowError("can't convert negative int to unsigned")
        raise OverflowError("int too big to convert")
    u = t if not signed else z3.If(t < 0, t + (1 << (8 * length)), t)
    # base-256 digits as fresh variables pinned by their defining equation (existence and uniqueness of the
    # digits of 0 <= u < 256^n is arithmetic; keeps every later use linear instead of div/mod terms)
    ds = [z3.Int(c.fresh_name("digit")) for _ in range(length)]
    c.assume(z3.And([z3.And(d >= 0, d < 256) for d in ds] +
                    [u == z3.Sum([d * (1 << (8 * i)) for i, d in enumerate(ds)]) if ds else u == 0]))
    digits = [SymInt(d) for d in ds]
    if byteorder == "big":
        digits.reverse()
    return SymBytes(digits)


def int_from_bytes(b, byteorder="big", *, signed=False):
    if not isinstance(b, SymBytes):
        return int.from_bytes(b, byteorder, signed=signed)
    if b.elems is None:
        raise Unsupported("from_bytes of symbolic-length bytes")
    if not isinstance(byteorder, str):
        raise Unsupported("from_bytes with symbolic byteorder")
    n = len(b.elems)
    el = list(b.elems)
    if byteorder == "big":
        el.reverse()
    u = z3.IntVal(0)
    for i, e in enumerate(el):
        u = u + zint(e) * (1 << (8 * i))
    if signed and n:
        u = z3.If(u >= (1 << (8 * n - 1)), u - (1 << (8 * n)), u)
    return mk_int(u)


# --------------------------------------------------------------------------- text holes
HOLE_OPEN, HOLE_CLOSE = "⟪", "⟫"


def hole(value, spec=""):
    """a concrete placeholder string standing for format(value, spec) in generated text"""
    c = ctx()
    c.holes.append((value, spec))
    return "%s%d%s" % (HOLE_OPEN, len(c.holes) - 1, HOLE_CLOSE)


# --------------------------------------------------------------------------- shifts / or with two symbolic operands
_pn = z3.Int("pow2_n")
POW2 = z3.RecFunction("pow2", z3.IntSort(), z3.IntSort())


def pow2_body(t):
    return z3.If(t <= 0, 1, 2 * POW2(t - 1))


z3.RecAddDefinition(POW2, [_pn], pow2_body(_pn))


def _sym_pow2(s):
    """2**s for a symbolic shift count s: Python raises ValueError for a negative count; otherwise the recursive definition POW2"""
    c = ctx()
    if c.branch(s.term < 0):
        raise ValueError("negative shift count")
    return POW2(z3.simplify(s.term))       # argument in z3's normal form: equal linear terms give the identical application


def _or_disjoint(a, b):
    """a | b for two symbolic ints: only with a proof hint from the side-car (ctx.ghost["or_hint"](a_term, b_term) -> (t, k)) naming a
    power of two M = POW2(t) and an integer k such that one operand is in [0, M) and the other is exactly k * M.  Both facts (and t >= 0)
    are PROVED here, not assumed; then the operands occupy disjoint bit ranges under the infinite two's complement reading and
    a | b == a + b.  Without a hint, or if a side condition does not hold on the path: Unsupported (undecided, never wrong)."""
    c = ctx()
    hook = c.ghost.get("or_hint")
    if hook is None:
        raise Unsupported("| of two symbolic ints")
    h = hook(a.term, b.term)
    t, k = h[0], h[1]
    hyps = list(h[2]) if len(h) > 2 else None
    m = POW2(t)
    ok = z3.And(t >= 0, z3.Or(z3.And(a.term >= 0, a.term < m, b.term == k * m), z3.And(b.term >= 0, b.term < m, a.term == k * m)))
    r = z3.unknown
    if hyps is not None and all(any(x.eq(y) for y in c.pc) for x in hyps):
        # the hint names the facts of the path condition that suffice: a small self-contained query
        so = z3.Solver()
        so.set("timeout", c.timeout_ms)
        qs = core.hide_recursive(hyps + [ok])       # congruence is all this query needs of POW2 / the codec definitions
        so.add(*qs[:-1])
        so.add(z3.Not(qs[-1]))
        r = so.check()
        c.nchecks += 1
    if r != z3.unsat:
        r, _, _ = c._check(z3.Not(ok), timeout=c.timeout_ms)
    if r != z3.unsat:
        raise Unsupported("| of two symbolic ints: the disjoint-bit-ranges side condition of the hint is not provable on this path")
    return mk_int(a.term + b.term)


# --------------------------------------------------------------------------- byte sequences
class Chunk:
    """piece of a byte rope.
    kind 'lit'  : elems = python list of byte values (int | SymInt)         (concrete length)
    kind 'enc'  : tag = (codec, value, ...) the bytes some *contracted encoder* returned for `value`;
                  n = its (symbolic) length, arr = its bytes (z3 array), both introduced by the encoder's contract
    kind 'arr'  : arbitrary bytes of symbolic length n, z3 array arr"""
    __slots__ = ("kind", "elems", "tag", "n", "arr")

    def __init__(self, kind, elems=None, tag=None, n=None, arr=None):
        self.kind, self.elems, self.tag, self.n, self.arr = kind, elems, tag, n, arr

    def length(self):
        return len(self.elems) if self.kind == "lit" else self.n

    def zlen(self):
        return zint(self.length())

    def at(self, i):
        """z3 term of the byte at offset i (z3 term or int) inside this chunk"""
        if self.kind == "lit":
            if isinstance(i, int):
                return zint(self.elems[i])
            t = z3.IntVal(0)
            for k in reversed(range(len(self.elems))):
                t = z3.If(i == k, zint(self.elems[k]), t)
            return t
        return z3.Select(self.arr, zint(i))


class SymBytes:
    """bytes / bytearray value: a rope of chunks (structure concrete, contents symbolic)."""

    def __init__(self, elems=None, chunks=None):
        if chunks is not None:
            self.chunks = _norm(chunks)
        else:
            self.chunks = _norm([Chunk("lit", elems=list(elems or []))])

    def __getattr__(self, name):
        # a bytes / bytearray method that is not modelled: loud and UNDECIDED, never a crash of the checker and never a wrong answer
        if name.startswith("__") and name.endswith("__"):
            raise AttributeError(name)
        from .core import Unsupported
        raise Unsupported("bytes.%s is not modelled on symbolic byte strings" % name)

    @staticmethod
    def lit(bs):
        return SymBytes(list(bs))

    @staticmethod
    def sym(n, arr):
        return SymBytes(chunks=[Chunk("arr", n=n, arr=arr)])

    @staticmethod
    def encoded(tag, n, arr):
        return SymBytes(chunks=[Chunk("enc", tag=tag, n=n, arr=arr)])

    @staticmethod
    def of(v):
        if isinstance(v, SymBytes):
            return v
        if isinstance(v, (bytes, bytearray, list, tuple)):
            return SymBytes(list(v))
        raise Unsupported("cannot view %r as bytes" % type(v))

    @property
    def elems(self):
        if all(c.kind == "lit" for c in self.chunks):
            return [e for c in self.chunks for e in c.elems]
        return None

    def length(self):
        tot = 0
        for c in self.chunks:
            tot = _add(tot, c.length())
        return tot

    def zlen(self):
        return zint(self.length())

    def __len__(self):
        n = self.length()
        if isinstance(n, int):
            return n
        raise Unsupported("len() of symbolic-length bytes outside the shim")

    def __pyvc_len__(self):
        return self.length()

    def __bool__(self):
        n = self.length()
        if isinstance(n, int):
            return n != 0
        return ctx().branch(zint(n) != 0)

    def at(self, i):
        """byte at global (possibly symbolic) index i as a z3 term; no bounds check"""
        it = zint(i)
        if len(self.chunks) == 1 and self.chunks[0].kind != "lit":
            return self.chunks[0].at(it)
        res = z3.IntVal(0)
        s = z3.IntVal(0)
        pieces = []
        for c in self.chunks:
            pieces.append((s, c))
            s = z3.simplify(s + c.zlen())
        for st, c in reversed(pieces):
            res = z3.If(z3.And(it >= st, it < st + c.zlen()), c.at(z3.simplify(it - st)), res)
        return z3.simplify(res)

    def as_array(self):
        if len(self.chunks) == 1 and self.chunks[0].kind != "lit":
            return self.chunks[0].arr
        k = z3.FreshInt("k")
        return z3.Lambda([k], self.at(k))

    def __iter__(self):
        e = self.elems
        if e is None:
            raise Unsupported("iteration over symbolic-length bytes")
        return iter(e)

    def __getitem__(self, k):
        if isinstance(k, slice):
            return self.slice(k.start, k.stop, k.step)
        e = self.elems
        if e is not None and isinstance(k, int):
            return e[k]
        c = ctx()
        n = self.zlen()
        kt = zint(k)
        if not c.branch(z3.And(kt >= -n, kt < n)):
            raise IndexError("index out of range")
        if c.branch(kt < 0):
            kt = kt + n
        return mk_int(self.at(kt))

    def slice(self, start, stop, step=None):
        if step not in (None, 1):
            raise Unsupported("slice step")
        e = self.elems
        if e is not None and not is_sym(start) and not is_sym(stop):
            return SymBytes(e[start:stop])
        n = self.zlen()

        def norm(v, dflt):
            if v is None:
                return dflt
            t = zint(v)
            return z3.If(t < 0, z3.If(t + n < 0, 0, t + n), z3.If(t > n, n, t))
        a = z3.simplify(norm(start, z3.IntVal(0)))
        b = z3.simplify(norm(stop, n))
        ln = z3.simplify(z3.If(b > a, b - a, 0))
        k = z3.FreshInt("k")
        base = self.as_array()
        arr = z3.Lambda([k], z3.Select(base, k + a))
        return SymBytes.sym(mk_int(ln), arr)

    def concat(self, o):
        o = SymBytes.of(o)
        return SymBytes(chunks=self.chunks + o.chunks)

    def __add__(self, o):
        if isinstance(o, (SymBytes, bytes, bytearray)):
            return self.concat(o)
        return NotImplemented

    def __radd__(self, o):
        if isinstance(o, (bytes, bytearray)):
            return SymBytes.of(o).concat(self)
        return NotImplemented

    def __iadd__(self, o):
        return self.__add__(o)

    def append(self, b):
        self.chunks = self.concat(SymBytes([b])).chunks

    def extend(self, o):
        self.chunks = self.concat(o).chunks

    def copy(self):
        return SymBytes(chunks=list(self.chunks))

    def join(self, parts):
        r = SymBytes([])
        first = True
        for p in parts:
            if not first:
                r = r.concat(self)
            r = r.concat(p)
            first = False
        return r

    def eq_term(self, o):
        """z3 formula: same sequence"""
        o = SymBytes.of(o)
        a, b = self.chunks, o.chunks
        # structural comparison when the chunk structures line up (sufficient AND necessary only for equal structures;
        # therefore used only when every pair has provably equal lengths by construction: lit/lit same size, enc/enc)
        if len(a) == len(b) and all(x.kind == y.kind and x.kind in ("lit", "enc") for x, y in zip(a, b)) \
                and all(x.kind != "lit" or len(x.elems) == len(y.elems) for x, y in zip(a, b)) \
                and all(x.kind != "enc" or x.tag[0] == y.tag[0] for x, y in zip(a, b)):
            cs = []
            for x, y in zip(a, b):
                if x.kind == "lit":
                    cs += [zint(p) == zint(q) for p, q in zip(x.elems, y.elems)]
                else:
                    # same codec: equal values give equal bytes (function congruence); the converse
                    # (injectivity) is the codec's round-trip lemma and is NOT used here.
                    cs.append(zint(x.tag[1]) == zint(y.tag[1]))
            return z3.And(cs + [z3.BoolVal(True)])
        k = z3.FreshInt("k")
        n = self.zlen()
        return z3.And(n == o.zlen(), z3.ForAll([k], z3.Implies(z3.And(0 <= k, k < n), self.at(k) == o.at(k))))

    def __eq__(self, o):
        if isinstance(o, (SymBytes, bytes, bytearray)):
            return mk_bool(self.eq_term(o))
        return False

    def __ne__(self, o):
        r = self.__eq__(o)
        return (not r) if isinstance(r, bool) else mk_bool(z3.Not(r.term))

    def __hash__(self):
        raise Unsupported("hash of symbolic bytes")

    def __repr__(self):
        return "SymBytes(%s)" % ", ".join(
            ("lit%r" % (c.elems,)) if c.kind == "lit" else "%s[%s]" % (c.kind, c.tag and c.tag[0]) for c in self.chunks)

    def witness(self, key):
        """ghost witness: the whole sequence is exactly what the fixed-width encoder produced for a value"""
        w = getattr(self, "_int_witness", None)
        if w is not None and w[1:] == key[1:]:
            return w[0]
        return None


def _norm(chunks):
    out = []
    for c in chunks:
        if c.kind == "lit":
            if not c.elems:
                continue
            if out and out[-1].kind == "lit":
                out[-1] = Chunk("lit", elems=out[-1].elems + list(c.elems))
                continue
            c = Chunk("lit", elems=list(c.elems))
        out.append(c)
    return out


def _add(a, b):
    if isinstance(a, int) and isinstance(b, int):
        return a + b
    return mk_int(zint(a) + zint(b))


class SymReader:
    """io.BytesIO over SymBytes: a cursor (chunk index, offset in chunk) over an immutable rope; short read at EOF.
    Reads of a concrete number of bytes inside literal chunks are structural; reading *into* an encoder chunk is only
    possible through that codec's decoder contract (stub), anything else is Unsupported."""

    def __init__(self, data=b""):
        self.data = SymBytes.of(data)
        self.ci = 0          # chunk index
        self.off = 0         # concrete offset inside a lit chunk; 0 for others
        self.consumed = 0    # total bytes consumed (int | SymInt), ghost/position

    def _skip_empty(self):
        ch = self.data.chunks
        while self.ci < len(ch) and ch[self.ci].kind == "lit" and self.off >= len(ch[self.ci].elems):
            self.ci += 1
            self.off = 0

    def at_chunk(self):
        self._skip_empty()
        ch = self.data.chunks
        return ch[self.ci] if self.ci < len(ch) else None

    def take_chunk(self):
        """consume the whole current non-lit chunk (used by decoder stubs)"""
        c = self.at_chunk()
        self.ci += 1
        self.off = 0
        self.consumed = _add(self.consumed, c.length())
        return c

    def read(self, n=-1):
        if n is None or (isinstance(n, int) and n < 0):
            raise Unsupported("read() to EOF")
        if not isinstance(n, int):
            raise Unsupported("read(n) with symbolic n")
        out = []
        need = n
        while need > 0:
            c = self.at_chunk()
            if c is None:
                break                                    # short read at EOF
            if c.kind == "lit":
                take = c.elems[self.off:self.off + need]
                out += take
                self.off += len(take)
                need -= len(take)
                continue
            if c.kind == "arr":
                # arbitrary tail of symbolic length: split on how many bytes are left
                cx = ctx()
                avail = c.zlen()
                k = cx.case([avail >= need] + [avail == j for j in range(need)], "read-tail")
                for i in range(need):
                    cx.assume(z3.And(z3.Select(c.arr, i) >= 0, z3.Select(c.arr, i) < 256))     # they are bytes
                if k == 0:
                    out += [mk_int(z3.Select(c.arr, i)) for i in range(need)]
                    j = z3.FreshInt("k")
                    rest = Chunk("arr", n=mk_int(avail - need), arr=z3.Lambda([j], z3.Select(c.arr, j + need)))
                    self.data = SymBytes(chunks=self.data.chunks[:self.ci] + [rest] + self.data.chunks[self.ci + 1:])
                    # note: chunk list of self.data is private to the reader (immutability of the source is kept)
                    need = 0
                else:
                    got = k - 1
                    out += [mk_int(z3.Select(c.arr, i)) for i in range(got)]
                    self.ci += 1
                    need -= got
                    if got == 0 and self.at_chunk() is None:
                        break
                continue
            raise Unsupported("byte-level read into an encoder chunk (%s)" % (c.tag[0],))
        self.consumed = _add(self.consumed, len(out))
        r = SymBytes(out)
        return r

    def tell(self):
        return self.consumed
