"""pyvc.absseq -- abstract sequences of encodable objects (modular reasoning about encode/decode loops).

An AbsSeq stands for an arbitrary python list of N (symbolic) encodable objects whose per-object
behaviour is given by the *contract* of the object's codec (proved elsewhere):
    item.encode(bo, ps)              == ENC(item),  len >= 1
    decode(reader at ENC(item)++r)   == (item, len ENC(item))
The concatenation of the encodings of items lo..hi-1 is one opaque rope chunk ('seq', seq, lo, hi)
of length PREFIX(seq, hi) - PREFIX(seq, lo), PREFIX being the recursive partial-sum function.

Iteration over an AbsSeq by a *pure map* (a generator expression whose body only depends on the
element) is modelled by running the body once on an arbitrary element (for-each rule).
"""
import z3

from . import core
from .core import Unsupported
from .sym import Chunk, SymBytes, SymInt, mk_int, zint

ITEMLEN = z3.Function("item_len", z3.IntSort(), z3.IntSort(), z3.IntSort())
ITEMBYTES = z3.Function("item_bytes", z3.IntSort(), z3.IntSort(), z3.ArraySort(z3.IntSort(), z3.IntSort()))
SEQBYTES = z3.Function("seq_bytes", z3.IntSort(), z3.IntSort(), z3.IntSort(), z3.ArraySort(z3.IntSort(), z3.IntSort()))
_s, _k = z3.Ints("s k")
PREFIX = z3.RecFunction("prefix_len", z3.IntSort(), z3.IntSort(), z3.IntSort())
z3.RecAddDefinition(PREFIX, [_s, _k], z3.If(_k <= 0, 0, PREFIX(_s, _k - 1) + ITEMLEN(_s, _k - 1)))


class AbsItem:
    def __init__(self, seq, index, generic=False):
        self.seq, self.index, self.generic = seq, index, generic

    def zlen(self):
        return ITEMLEN(self.seq.sid, zint(self.index))

    def encode(self, byteorder, ptr_size):
        self.seq.encode_calls.append((byteorder, ptr_size))
        n = self.zlen()
        r = _GenericPart() if self.generic else SymBytes([])
        r.chunks = [Chunk("enc", tag=("item", self), n=mk_int(n), arr=ITEMBYTES(self.seq.sid, zint(self.index)))]
        r.item = self
        return r

    def same(self, o):
        """z3 term: same object"""
        if not isinstance(o, AbsItem) or o.seq is not self.seq:
            return z3.BoolVal(False)
        return zint(self.index) == zint(o.index)

    def __eq__(self, o):
        from .sym import mk_bool
        if isinstance(o, AbsItem):
            return mk_bool(self.same(o))
        return False

    def __hash__(self):
        raise Unsupported("hash of an abstract item")

    def __repr__(self):
        return "AbsItem(%s[%s])" % (self.seq.name, self.index)


class _GenericPart(SymBytes):
    """the encoding of the arbitrary element of a pure map over an AbsSeq"""

    def __init__(self):
        SymBytes.__init__(self, [])

    def __pyvc_join_all__(self):
        return self.item.seq.chunk_bytes(0, self.item.seq.n)


class AbsSeq:
    def __init__(self, ctx, name, item_kind="op"):
        self.name, self.item_kind = name, item_kind
        self.sid = ctx.int(name + "_id", inp=False)
        self.n = SymInt(ctx.int(name + "_len"))
        ctx.assume(zint(self.n) >= 0)
        self.encode_calls = []
        self.ctx = ctx

    def item(self, i):
        # contract of every item codec: an encoding has at least its opcode byte
        self.ctx.assume(ITEMLEN(self.sid, zint(i)) >= 1)
        return AbsItem(self, i)

    def prefix(self, k):
        return PREFIX(self.sid, zint(k))

    def chunk_bytes(self, lo, hi):
        monotone_lemma(self.ctx, self, lo, hi)
        n = z3.simplify(self.prefix(hi) - self.prefix(lo))
        return SymBytes(chunks=[Chunk("enc", tag=("seq", self, lo, hi), n=mk_int(n),
                                      arr=SEQBYTES(self.sid, zint(lo), zint(hi)))])

    def __iter__(self):
        c = self.ctx
        if c.branch(zint(self.n) > 0):
            k = c.int(self.name + "_any", inp=False)
            c.assume(z3.And(0 <= k, k < zint(self.n)))
            it = self.item(SymInt(k))
            it.generic = True
            yield it

    def __pyvc_len__(self):
        return self.n

    def __len__(self):
        raise Unsupported("len() of an abstract sequence outside the shim")

    def __bool__(self):
        return self.ctx.branch(zint(self.n) > 0)

    def __repr__(self):
        return "AbsSeq(%s)" % self.name


class PrefixMarker:
    """element of a real python list standing for `seq[0:k]` (the list then reads  seq[0:k] ++ later items)"""

    def __init__(self, seq, k):
        self.seq, self.k = seq, k

    def __repr__(self):
        return "<%s[:%s]>" % (self.seq.name, self.k)


def represents(lst, seq, upto):
    """z3 term: the python list `lst` (possibly starting with a PrefixMarker) is exactly seq[0:upto]"""
    if isinstance(lst, tuple):
        lst = list(lst)
    if isinstance(lst, AbsSeq):
        return z3.And(z3.BoolVal(lst is seq), zint(upto) == zint(seq.n))
    if not isinstance(lst, list):
        return z3.BoolVal(False)
    k = z3.IntVal(0)
    cs = []
    rest = lst
    if lst and isinstance(lst[0], PrefixMarker):
        if lst[0].seq is not seq:
            return z3.BoolVal(False)
        k = zint(lst[0].k)
        rest = lst[1:]
    for j, it in enumerate(rest):
        if not isinstance(it, AbsItem) or it.seq is not seq:
            return z3.BoolVal(False)
        cs.append(zint(it.index) == k + j)
    cs.append(k + len(rest) == zint(upto))
    return z3.And(cs)


def monotone_lemma(ctx, seq, k, n):
    """instance of the lemma  0 <= k <= n  =>  PREFIX(n) - PREFIX(k) >= n - k   (items have length >= 1).
    Proved by induction on n-k in job C14/lemma/prefix-monotone (base + step are z3 obligations); here an instance
    is assumed.  Returned so that the caller can record the use."""
    f = z3.Implies(z3.And(0 <= zint(k), zint(k) <= zint(n)), seq.prefix(n) - seq.prefix(k) >= zint(n) - zint(k))
    ctx.assume(f)
    return f


def decode_stub_factory(real_decode):
    """contract stub for _OpcodeEncodable.decode: consumes one abstract item when the reader stands at one"""
    from .sym import SymReader

    def decode(cls, io, byteorder, ptr_size):
        if isinstance(io, SymReader):
            ch = io.at_chunk()
            if ch is not None and ch.kind == "enc" and ch.tag[0] == "seq":
                seq, lo, hi = ch.tag[1], ch.tag[2], ch.tag[3]
                pos = getattr(io, "seqpos", None)
                if pos is None:
                    pos = lo
                c = core.CUR
                if c.branch(zint(pos) < zint(hi)):
                    it = seq.item(pos)
                    io.seqpos = mk_int(zint(pos) + 1)
                    io.consumed = mk_int(zint(io.consumed) + it.zlen())
                    seq.decode_calls = getattr(seq, "decode_calls", 0) + 1
                    return it, mk_int(it.zlen())
                io.ci += 1
                io.off = 0
                io.seqpos = None
                return decode(cls, io, byteorder, ptr_size)
            if ch is not None and ch.kind == "enc" and ch.tag[0] == "item":
                io.take_chunk()
                return ch.tag[1], ch.length()
        return real_decode(cls, io, byteorder, ptr_size)

    return decode
