"""pyvc.core -- path exploration, path condition, obligations.

The real functions of /repo are executed by CPython itself on *symbolic proxy*
values (pyvc.sym).  Every time the code needs the truth value of a symbolic
condition the proxy asks `Ctx.branch`, which consults a decision list: the prefix
is replayed, a new decision explores the feasible side(s) and schedules the
other one.  `explore` re-executes the harness until the work list is empty, i.e.
*every* feasible path of the code has been executed; loops over symbolic data
are cut by invariants (pyvc.instrument) and callees by contract stubs, so the
set of paths is finite without any unrolling bound.  On each path the harness
states obligations with `Ctx.prove`: the verification condition is
`path condition => formula`, discharged by z3 (unsat of the negation).

Exit-status vocabulary used by the callers: proved / failed (model) / unknown.
"""
import itertools
import time

import z3

CUR = None  # the Ctx of the path being executed (single-threaded per process)


class Unsupported(Exception):
    """A construct outside the supported fragment was reached: the obligation is
    *undecided* (never a pass, never a violation)."""


class PathInfeasible(Exception):
    pass


class PathEnd(Exception):
    """The harness / a loop rule ended the current path on purpose."""


class EngineError(Exception):
    """Internal inconsistency (e.g. a replayed prefix diverged)."""


class Result:
    __slots__ = ("name", "status", "model", "ms", "path", "note")

    def __init__(self, name, status, model=None, ms=0.0, path=(), note=""):
        self.name, self.status, self.model, self.ms, self.path, self.note = name, status, model, ms, tuple(path), note

    def as_dict(self):
        return {"name": self.name, "status": self.status, "model": self.model, "ms": round(self.ms, 2),
                "path": list(self.path), "note": self.note}


_COMMUTATIVE = (z3.Z3_OP_AND, z3.Z3_OP_OR, z3.Z3_OP_ADD, z3.Z3_OP_MUL, z3.Z3_OP_EQ, z3.Z3_OP_DISTINCT, z3.Z3_OP_IFF)


def _canon(t, budget=None):
    """printing of a term that does not depend on the order z3's simplifier gave to the arguments of commutative operators
    (that order follows internal AST ids and may differ between two executions of the same path)"""
    s = t.sexpr()
    if len(s) > 4000 or not z3.is_app(t) or t.num_args() == 0:
        return s
    kids = [_canon(c) for c in t.children()]
    if t.decl().kind() in _COMMUTATIVE:
        kids.sort()
    return "(%s %s)" % (t.decl().name(), " ".join(kids))


class NoBranch(Exception):
    """a symbolic truth test was needed while branching is switched off (speculative evaluation of a comprehension body)"""


class Ctx:
    def __init__(self, decisions, timeout_ms=20000, branch_timeout_ms=2000):
        self.decisions = list(decisions)      # list of (choice:int, fingerprint:str)
        self.pos = 0
        self.alts = []                        # decision prefixes scheduled by this run
        self.solver = z3.Solver()
        self.solver.set("timeout", branch_timeout_ms)
        self.timeout_ms = timeout_ms
        self.branch_timeout_ms = branch_timeout_ms
        self.pc = []
        self.counter = itertools.count()
        self.inputs = {}                      # name -> z3 term (reported in models)
        self.results = []
        self.holes = []                       # template holes (pyvc.sym markers)
        self.ghost = {}                       # free-form per-path ghost state for stubs / loop rules
        self.solver_ms = 0.0
        self.nchecks = 0
        self.covers = set()
        self.tainted = False

    # ---- fresh symbols
    def fresh_name(self, base):
        return "%s!%d" % (base, next(self.counter))

    def int(self, base, inp=True):
        v = z3.Int(self.fresh_name(base))
        if inp:
            self.inputs[str(v)] = v
        return v

    def bool(self, base, inp=True):
        v = z3.Bool(self.fresh_name(base))
        if inp:
            self.inputs[str(v)] = v
        return v

    def array(self, base, dom=None, rng=None, inp=True):
        v = z3.Array(self.fresh_name(base), dom or z3.IntSort(), rng or z3.IntSort())
        if inp:
            self.inputs[str(v)] = v
        return v

    # ---- path condition
    def assume(self, c):
        c = _b(c)
        self.pc.append(c)
        self.solver.add(c)

    def _check(self, *extra, timeout=None):
        t0 = time.time()
        self.solver.push()
        try:
            if timeout is not None:
                # an obligation first gets a short slice on the incremental solver; queries that go astray (the unstable ones: same
                # formula, seconds or minutes depending on the search order) are then retried below on fresh solvers with other seeds
                self.solver.set("timeout", min(timeout, 20000))
            for e in extra:
                self.solver.add(e)
            r = self.solver.check()
            m = self.solver.model() if r == z3.sat else None
            reason = self.solver.reason_unknown() if r == z3.unknown else ""
        finally:
            self.solver.pop()
            if timeout is not None:
                self.solver.set("timeout", self.branch_timeout_ms)
        if r == z3.unknown and timeout is not None:
            left = timeout - (time.time() - t0) * 1000
            for attempt, seed in enumerate((7, 101, 4242, 90001)):
                if left <= 1000:
                    break
                so = z3.Solver()
                so.set("random_seed", seed)
                slice_ms = int(min(left, 20000 * (attempt + 1)))
                so.set("timeout", slice_ms)
                so.add(*self.pc)
                so.add(*extra)
                t1 = time.time()
                r2 = so.check()
                left -= (time.time() - t1) * 1000
                if r2 != z3.unknown:
                    r, m, reason = r2, (so.model() if r2 == z3.sat else None), ""
                    break
                reason = so.reason_unknown()
        self.solver_ms += (time.time() - t0) * 1000
        self.nchecks += 1
        return r, m, reason

    def feasible(self, c=None):
        r, _, _ = self._check(*([] if c is None else [_b(c)]))
        if r == z3.unknown:
            self.unknown_feasibility = True      # (remembered: such a path may turn out infeasible at its end -- see explore)
        return r != z3.unsat          # unknown counts as feasible (sound for proving)

    def _decide(self, nalts, fingerprint, feas, payload=None):
        """generic decision point: returns the index of the alternative to take on this run."""
        i = self.pos
        self.pos += 1
        if i < len(self.decisions):
            ch, fp, _ = self.decisions[i]
            if fp != fingerprint:
                raise EngineError("replay diverged at decision %d: %s vs %s" % (i, fp[:80], fingerprint[:80]))
            return ch
        ok = [k for k in range(nalts) if feas(k)]
        if not ok:
            raise PathInfeasible()
        prefix = self.decisions[:i]
        for k in ok[1:]:
            self.alts.append(prefix + [(k, fingerprint, payload)])
        self.decisions.append((ok[0], fingerprint, payload))
        return ok[0]

    def concretize(self, t, cap=300):
        """enumerate the values of integer term t on this path (complete: one path per feasible value);
        Unsupported if there are more than `cap`."""
        t = z3.simplify(t)
        if z3.is_int_value(t):
            return t.as_long()
        for _ in range(cap):
            i = self.pos
            if i < len(self.decisions):
                v = self.decisions[i][2]
            else:
                r, m, _ = self._check()
                if r == z3.unsat:
                    raise PathInfeasible()
                if r != z3.sat:
                    raise Unsupported("concretize: solver gave no model")
                v = m.eval(t, model_completion=True).as_long()
            c = t == v
            ch = self._decide(2, "z:%d" % v, lambda k: self.feasible(c if k == 0 else z3.Not(c)), payload=v)
            if ch == 0:
                self.assume(c)
                return v
            self.assume(z3.Not(c))
        raise Unsupported("concretize: more than %d values" % cap)

    def branch(self, c):
        """truth value of the symbolic condition c on this path"""
        if isinstance(c, bool):
            return c
        c = z3.simplify(c)
        if z3.is_true(c):
            return True
        if z3.is_false(c):
            return False
        if getattr(self, "no_branch", False):
            raise NoBranch()
        fp = "b:" + _canon(c)[:200]
        ch = self._decide(2, fp, lambda k: self.feasible(c if k == 0 else z3.Not(c)))
        if ch == 0:
            self.assume(c)
            return True
        self.assume(z3.Not(c))
        return False

    def choose(self, n, label="choose"):
        """demonic choice between n alternatives (all explored)"""
        return self._decide(n, "c:%s:%d" % (label, n), lambda k: True)

    def case(self, conds, label="case"):
        """choose among mutually exclusive symbolic conditions (only feasible ones explored); assumes the chosen one"""
        conds = [_b(c) for c in conds]
        fp = "k:%s:%d" % (label, len(conds))
        ch = self._decide(len(conds), fp, lambda k: self.feasible(conds[k]))
        self.assume(conds[ch])
        return ch

    def cover(self, label):
        self.covers.add(label)

    # ---- obligations
    def prove(self, name, f, note=""):
        if isinstance(f, bool):
            f = z3.BoolVal(f)
        t0 = time.time()
        r, m, reason = self._check(z3.Not(f), timeout=self.timeout_ms)
        ms = (time.time() - t0) * 1000
        if r == z3.unsat:
            self.results.append(Result(name, "proved", None, ms, self._path_id(), note))
            return True
        if r == z3.sat:
            model = {}
            ch = ["%s=%d" % (d[1][2:].rsplit(":", 1)[0], d[0]) for d in self.decisions[: self.pos] if d[1].startswith("c:")]
            if ch:
                note = (note + " " if note else "") + "[case: " + ", ".join(ch) + "]"
            for k, v in self.inputs.items():
                try:
                    model[k] = _model_value(m, v)
                except Exception as ex:  # pragma: no cover
                    model[k] = "?" + str(ex)
            self.results.append(Result(name, "failed", model, ms, self._path_id(), note))
        else:
            self.results.append(Result(name, "unknown", None, ms, self._path_id(), note or reason))
        # continue the path as if it held (standard assert-then-assume)
        self.tainted = True
        self.assume(f)
        return False

    def prove_from(self, name, hyps, goal, note="", opaque=False):
        """prove `goal` from the listed facts only (each must already be part of the path condition): a small
        self-contained query, used for proof hints so that they do not drag the whole path condition along.
        opaque=True additionally hides every recursive definition behind an uninterpreted symbol of the same signature
        (the query then only uses congruence for them: strictly weaker hypotheses, so a proof remains a proof; it stops the
        solver from unfolding definitions without end in queries that do not need them)."""
        for h in hyps:
            if not any(h.eq(x) for x in self.pc):
                raise EngineError("prove_from: hypothesis is not a fact of the path condition: %s" % h.sexpr()[:120])
        t0 = time.time()
        so = z3.Solver()
        so.set("timeout", self.timeout_ms)
        qh, qg = list(hyps), goal
        if opaque:
            qs = hide_recursive(qh + [qg])
            qh, qg = qs[:-1], qs[-1]
        so.add(*qh)
        so.add(z3.Not(qg))
        r = so.check()
        ms = (time.time() - t0) * 1000
        self.solver_ms += ms
        self.nchecks += 1
        if r == z3.unsat:
            self.results.append(Result(name, "proved", None, ms, self._path_id(), note))
            self.assume(goal)
            return True
        # not derivable from the hints alone: fall back to the full path condition
        ok = self.prove(name, goal, note)
        if ok:
            self.assume(goal)
        return ok

    def prove_lemma(self, name, hyps, goal, note="", opaque=False):
        """a self-contained lemma `hyps => goal` on a fresh solver: the hypotheses are part of the STATEMENT (an induction hypothesis,
        an instance of a definition), they need not be facts of the path and nothing becomes one.  opaque: see prove_from."""
        t0 = time.time()
        qs = list(hyps) + [goal]
        if opaque:
            qs = hide_recursive(qs)
        r = z3.unknown
        for seed in (0, 7, 101):
            so = z3.Solver()
            so.set("timeout", self.timeout_ms)
            so.set("random_seed", seed)
            so.add(*qs[:-1])
            so.add(z3.Not(qs[-1]))
            r = so.check()
            self.nchecks += 1
            if r != z3.unknown:
                break
        ms = (time.time() - t0) * 1000
        self.solver_ms += ms
        if r == z3.unsat:
            self.results.append(Result(name, "proved", None, ms, self._path_id(), note))
            return True
        if r == z3.sat:
            m = so.model()
            model = {}
            for k, v in self.inputs.items():
                try:
                    model[k] = _model_value(m, v)
                except Exception as ex:  # pragma: no cover
                    model[k] = "?" + str(ex)
            self.results.append(Result(name, "failed", model, ms, self._path_id(), note))
        else:
            self.results.append(Result(name, "unknown", None, ms, self._path_id(), note or so.reason_unknown()))
        self.tainted = True
        return False

    def fail(self, name, note=""):
        """the code reached a state the contract forbids on a feasible path (e.g. a wrong exception class)"""
        return self.prove(name, z3.BoolVal(False), note)

    def _path_id(self):
        return [d[0] for d in self.decisions[: self.pos]]


def hide_recursive(exprs):
    """the same formulas with every application of a recursive function replaced by an uninterpreted function of the same signature"""
    decls = {}

    def collect(e, seen):
        if e.get_id() in seen:
            return
        seen.add(e.get_id())
        if z3.is_quantifier(e):
            collect(e.body(), seen)
            return
        if z3.is_app(e):
            d = e.decl()
            if d.kind() == z3.Z3_OP_RECURSIVE and d.name() not in decls:
                decls[d.name()] = d
            for k in e.children():
                collect(k, seen)
    seen = set()
    for e in exprs:
        collect(e, seen)
    if not decls:
        return list(exprs)
    subs = []
    for nm, d in decls.items():
        dom = [d.domain(i) for i in range(d.arity())]
        u = z3.Function(nm + "!opaque", *(dom + [d.range()]))
        subs.append((d, u(*[z3.Var(i, dom[i]) for i in range(d.arity())])))
    return [z3.substitute_funs(e, *subs) for e in exprs]


def _b(c):
    if isinstance(c, bool):
        return z3.BoolVal(c)
    if hasattr(c, "term"):
        return c.term
    return c


def _model_value(m, v):
    if z3.is_array(v):
        return str(m.eval(v, model_completion=True))[:400]
    r = m.eval(v, model_completion=True)
    if z3.is_int_value(r):
        return r.as_long()
    if z3.is_true(r):
        return True
    if z3.is_false(r):
        return False
    return str(r)


class Exploration:
    def __init__(self):
        self.results = []          # Result
        self.paths = 0
        self.completed = 0
        self.infeasible = 0
        self.unsupported = []      # messages
        self.errors = []
        self.solver_ms = 0.0
        self.checks = 0
        self.wall_s = 0.0
        self.covers = set()
        self.truncated = False

    def summary(self):
        """obligation name -> aggregated status over all paths"""
        agg = {}
        for r in self.results:
            a = agg.setdefault(r.name, {"status": "proved", "paths": 0, "ms": 0.0, "model": None, "note": ""})
            a["paths"] += 1
            a["ms"] += r.ms
            if r.status == "failed":
                if a["status"] != "failed":
                    a["model"], a["note"] = r.model, r.note
                a["status"] = "failed"
            elif r.status == "unknown" and a["status"] == "proved":
                a["status"], a["note"] = "unknown", r.note
        return agg


def explore(harness, timeout_ms=20000, max_paths=20000, max_seconds=600, branch_timeout_ms=2000):
    """run `harness(ctx)` on every feasible path."""
    global CUR
    ex = Exploration()
    work = [[]]
    t0 = time.time()
    while work:
        if ex.paths >= max_paths or time.time() - t0 > max_seconds:
            ex.truncated = True
            break
        dec = work.pop()
        ctx = Ctx(dec, timeout_ms, branch_timeout_ms)
        CUR = ctx
        ex.paths += 1
        try:
            try:
                harness(ctx)
            except PathEnd:
                pass
            ex.completed += 1
            # canary: a path whose condition became unsatisfiable through an `assume` proves everything
            if ctx.results and not ctx.tainted and ctx._check()[0] == z3.unsat:
                if getattr(ctx, "unknown_feasibility", False):
                    # a branch of this path was taken because the solver could not decide its feasibility in the short branch budget
                    # (a loaded machine): the path does not exist.  It is no error; its obligations hold on it trivially and are kept
                    # (every one of them is also generated on a feasible path when the machine is not loaded -- the baseline comes
                    # from such runs -- so no verdict changes), its cover points are not counted.
                    ex.completed -= 1
                    ex.infeasible += 1
                    ctx.covers = set()
                else:
                    ex.errors.append("vacuous path: path condition unsatisfiable at the end of a path with obligations %s"
                                     % [r.name for r in ctx.results][:3])
        except PathInfeasible:
            ex.infeasible += 1
        except Unsupported as e:
            ex.unsupported.append(str(e)[:300])
        except EngineError as e:
            ex.errors.append(str(e)[:300])
        except RecursionError as e:
            ex.errors.append("RecursionError")
        finally:
            CUR = None
        work.extend(ctx.alts)
        ex.results.extend(ctx.results)
        ex.solver_ms += ctx.solver_ms
        ex.checks += ctx.nchecks
        ex.covers |= ctx.covers
    ex.wall_s = time.time() - t0
    return ex
