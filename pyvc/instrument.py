"""pyvc.instrument -- mechanical AST instrumentation of the *real* functions, redone on every run.

What it does to a function (and nothing else):
  * loops named by a side-car loop contract (function, ordinal in pre-order) are replaced by the
    invariant rule:  establish ; havoc the variables the loop assigns ; then either one arbitrary
    iteration (assume invariant, run the ORIGINAL body once, prove invariant, end path) or exit
    (assume invariant and exhaustion, continue after the loop).  `break` leaves through the
    original exit, `continue` ends the iteration.  Loops without a contract are left as they are.
  * optionally, dict displays `{...}` are routed through `__pyvc_dict__` so that dictionaries
    created by the code can hold symbolic keys (pyvc.containers.PDict; identical to dict on
    concrete keys).
The instrumented code object replaces `func.__code__` for the duration of the exploration and is
restored afterwards; decorators, closures, defaults, and the identity of the function object are
untouched, so every reference to the function (methods, wrappers, other modules) sees it.
"""
import ast
import inspect
import textwrap
import types

from . import core
from .core import PathEnd, Unsupported


class _Poison:
    """value of a variable the loop assigns but the loop contract did not describe: any use is loud"""

    def __init__(self, name):
        object.__setattr__(self, "_n", name)

    def _boom(self, *a, **k):
        raise Unsupported("loop contract does not describe variable '%s' that the loop assigns and later code reads" % object.__getattribute__(self, "_n"))

    __getattr__ = __bool__ = __iter__ = __call__ = __eq__ = __add__ = __radd__ = __len__ = __getitem__ = __lt__ = __hash__ = _boom


class LoopSpec:
    """side-car loop contract.  Subclass and override.  `env` is a dict snapshot of the function's locals."""

    #: names the loop assigns that are dead at the loop head (assigned before use in every iteration)
    local_names = ()

    def __init__(self, ctx, iterable, env):
        self.ctx, self.iterable, self.env0 = ctx, iterable, dict(env)

    def establish(self, env):
        """prove the invariant holds on entry (use self.ctx.prove)"""

    def havoc(self, env):
        """return {name: arbitrary value satisfying the invariant} for the variables the loop assigns; assume the invariant"""
        return {}

    def has_next(self):
        """z3 condition / bool: the iterator is not exhausted in the havoc'd state (for-loops)"""
        raise NotImplementedError

    def element(self):
        """the element bound to the loop target in the arbitrary iteration"""
        raise NotImplementedError

    def preserved(self, env):
        """prove the invariant after one iteration"""

    def at_exit(self, env):
        """for-loops: nothing to do by default (has_next() is assumed false by the rule)"""

    def at_break(self, env):
        """the arbitrary iteration left the loop with `break`: the elements not yet visited stay unvisited, so the
        exhaustion fact of at_exit does NOT hold.  A contract whose loop may legitimately break overrides this."""
        raise Unsupported("the loop body left the loop with `break`, which its loop contract does not describe")


def _fingerprint(v):
    """cheap state fingerprint of a mutable container held in a local (shallow)"""
    from .containers import PDict, PList
    from .masked import _Masked
    from .sym import SymBytes
    from .absobj import PSet
    if isinstance(v, PSet):
        return ("pset", len(v.log), id(v.base))
    if isinstance(v, _Masked):
        return ("masked", tuple(b.get_id() for b in v.bits))
    if isinstance(v, PDict):
        return ("pdict", len(v.log), id(v.base))
    if isinstance(v, PList):
        return ("plist", len(v.items), id(v.n) if not isinstance(v.n, int) else v.n, len(getattr(v, "writes", ())))
    if isinstance(v, SymBytes):
        return ("bytes", tuple(id(c) for c in v.chunks))
    if isinstance(v, (list, set, dict, bytearray)):
        try:
            if isinstance(v, dict):
                return ("dict", len(v), tuple((id(a), id(b)) for a, b in v.items()) if len(v) < 64 else None)
            if isinstance(v, bytearray):
                return ("bytearray", bytes(v))
            return (type(v).__name__, len(v), tuple(id(x) for x in v) if len(v) < 64 else None)
        except Exception:
            return None
    return None


class _Rule:
    def __init__(self, key, spec, assigned):
        self.key, self.spec, self.assigned = key, spec, assigned
        self.ctx = spec.ctx
        self._snap = None

    def _guard_snapshot(self, env):
        self._snap = {n: (id(v), _fingerprint(v)) for n, v in env.items() if not n.startswith("__pyvc")}

    def _guard_check(self, env):
        """frame check of the loop rule: a container held in a local that the body mutated in place must be one the loop
        contract declares (LoopSpec.mutates) -- otherwise the exit path would silently keep its pre-loop content"""
        if self._snap is None:
            return
        declared = set(getattr(self.spec, "mutates", ())) | set(self.assigned)
        for n, (oid, fp) in self._snap.items():
            if n in declared or fp is None or n not in env:
                continue
            v = env[n]
            if id(v) == oid and _fingerprint(v) != fp:
                raise Unsupported("loop %s mutates the container in local '%s' in place, which its loop contract does not describe" % (self.key, n))

    def havoc(self, env):
        self.spec.establish(env)
        new = self.spec.havoc(env) or {}
        self._guard_snapshot(env)
        out = []
        for n in self.assigned:
            if n in new:
                out.append(new[n])
            elif n in self.spec.local_names:
                out.append(env.get(n, _Poison(n)))
            else:
                out.append(_Poison(n))
        return tuple(out) if len(out) != 1 else (out[0],)

    def iterate(self):
        hn = self.spec.has_next()
        return self.ctx.branch(hn if isinstance(hn, bool) else getattr(hn, "term", hn))

    def element(self):
        e = self.spec.element()
        return e

    def preserved(self, env):
        self._guard_check(env)
        self.spec.preserved(env)
        self.ctx.cover("loop-preserved:" + self.key)
        raise PathEnd()

    def exit(self, env):
        self.spec.at_exit(env)
        self.ctx.cover("loop-exit:" + self.key)

    def broke(self, env):
        self._guard_check(env)
        self.spec.at_break(env)
        self.ctx.cover("loop-break:" + self.key)


_SPECS = {}      # key -> LoopSpec subclass (active during an exploration)


def __pyvc_loop__(key, iterable, env, assigned):
    cls = _SPECS.get(key)
    ctx = core.CUR
    if cls is None or ctx is None:
        return None
    spec = cls(ctx, iterable, env)
    if getattr(spec, "not_applicable", False):
        return None
    return _Rule(key, spec, assigned)


def _assigned_names(nodes):
    names = []

    class V(ast.NodeVisitor):
        def visit_Name(self, n):
            if isinstance(n.ctx, (ast.Store, ast.Del)) and n.id not in names:
                names.append(n.id)

        def visit_FunctionDef(self, n):
            if n.name not in names:
                names.append(n.name)

        visit_AsyncFunctionDef = visit_FunctionDef

        def visit_ClassDef(self, n):
            if n.name not in names:
                names.append(n.name)

        def visit_Lambda(self, n):
            pass

        def visit_ListComp(self, n):
            pass

        visit_SetComp = visit_DictComp = visit_GeneratorExp = visit_ListComp

        def visit_ExceptHandler(self, n):
            if n.name and n.name not in names:
                names.append(n.name)
            self.generic_visit(n)

    for nd in nodes:
        V().visit(nd)
    return names


class _Transformer(ast.NodeTransformer):
    def __init__(self, fkey, wanted, dicts):
        self.fkey, self.wanted, self.dicts = fkey, wanted, dicts
        self.ordinal = -1
        self.done = []
        self.depth = 0

    def visit_FunctionDef(self, node):
        # nested defs are part of the enclosing function's text; loops inside them are numbered too
        self.generic_visit(node)
        return node

    def visit_BinOp(self, node):
        # b"literal" * n : bytes.__mul__ would hand a symbolic n to C code (__index__); route it through the engine
        self.generic_visit(node)
        if isinstance(node.op, ast.Mult) and not (isinstance(node.left, ast.Constant) and isinstance(node.left.value, (int, float, str))) \
                and not (isinstance(node.right, ast.Constant) and isinstance(node.right.value, (float, str))):
            return ast.copy_location(ast.Call(func=ast.Name(id="__pyvc_bytesmul__", ctx=ast.Load()), args=[node.left, node.right], keywords=[]), node)
        return node

    def visit_Dict(self, node):
        self.generic_visit(node)
        if not self.dicts or any(k is None for k in node.keys):
            return node
        pairs = ast.List(elts=[ast.Tuple(elts=[k, v], ctx=ast.Load()) for k, v in zip(node.keys, node.values)], ctx=ast.Load())
        return ast.copy_location(ast.Call(func=ast.Name(id="__pyvc_dict__", ctx=ast.Load()), args=[pairs], keywords=[]), node)

    def visit_DictComp(self, node):
        self.generic_visit(node)
        if not self.dicts or len(node.generators) != 1 or node.generators[0].is_async:
            return node
        g = node.generators[0]
        # {K: V for T in IT if C}  ->  __pyvc_dictcomp__(IT, lambda T: (K, V, C))     (same meaning on ordinary iterables)
        names = [n.id for n in ast.walk(g.target) if isinstance(n, ast.Name)]
        cond = ast.BoolOp(op=ast.And(), values=list(g.ifs)) if len(g.ifs) > 1 else (g.ifs[0] if g.ifs else ast.Constant(True))
        if isinstance(g.target, ast.Name):
            args = ast.arguments(posonlyargs=[], args=[ast.arg(arg=g.target.id)], kwonlyargs=[], kw_defaults=[], defaults=[])
            body = ast.Tuple(elts=[node.key, node.value, cond], ctx=ast.Load())
            lam = ast.Lambda(args=args, body=body)
        else:
            # tuple target: lambda __t: (lambda a, b: (K, V, C))(*__t)
            inner = ast.Lambda(args=ast.arguments(posonlyargs=[], args=[ast.arg(arg=n) for n in names], kwonlyargs=[], kw_defaults=[], defaults=[]),
                               body=ast.Tuple(elts=[node.key, node.value, cond], ctx=ast.Load()))
            if not (isinstance(g.target, ast.Tuple) and all(isinstance(e, ast.Name) for e in g.target.elts)):
                return node
            lam = ast.Lambda(args=ast.arguments(posonlyargs=[], args=[ast.arg(arg="__pyvc_t")], kwonlyargs=[], kw_defaults=[], defaults=[]),
                             body=ast.Call(func=inner, args=[ast.Starred(value=ast.Name(id="__pyvc_t", ctx=ast.Load()), ctx=ast.Load())], keywords=[]))
        return ast.copy_location(ast.Call(func=ast.Name(id="__pyvc_dictcomp__", ctx=ast.Load()), args=[g.iter, lam], keywords=[]), node)

    def visit_ListComp(self, node):
        self.generic_visit(node)
        if not self.dicts or len(node.generators) != 1 or node.generators[0].is_async:
            return node
        g = node.generators[0]
        # [E for T in IT if C]  ->  __pyvc_listcomp__(IT, lambda T: (E, C))     (same meaning on ordinary iterables)
        cond = ast.BoolOp(op=ast.And(), values=list(g.ifs)) if len(g.ifs) > 1 else (g.ifs[0] if g.ifs else ast.Constant(True))
        body = ast.Tuple(elts=[node.elt, cond], ctx=ast.Load())
        if isinstance(g.target, ast.Name):
            lam = ast.Lambda(args=ast.arguments(posonlyargs=[], args=[ast.arg(arg=g.target.id)], kwonlyargs=[], kw_defaults=[], defaults=[]), body=body)
        elif isinstance(g.target, ast.Tuple) and all(isinstance(e, ast.Name) for e in g.target.elts):
            inner = ast.Lambda(args=ast.arguments(posonlyargs=[], args=[ast.arg(arg=e.id) for e in g.target.elts], kwonlyargs=[], kw_defaults=[], defaults=[]), body=body)
            lam = ast.Lambda(args=ast.arguments(posonlyargs=[], args=[ast.arg(arg="__pyvc_t")], kwonlyargs=[], kw_defaults=[], defaults=[]),
                             body=ast.Call(func=inner, args=[ast.Starred(value=ast.Name(id="__pyvc_t", ctx=ast.Load()), ctx=ast.Load())], keywords=[]))
        else:
            return node
        return ast.copy_location(ast.Call(func=ast.Name(id="__pyvc_listcomp__", ctx=ast.Load()), args=[g.iter, lam], keywords=[]), node)

    def visit_Call(self, node):
        self.generic_visit(node)
        f = node.func
        # <bytes literal>.join(X)  ->  __pyvc_join__(<bytes literal>, X): C-level join cannot consume proxy byte strings
        if isinstance(f, ast.Attribute) and f.attr == "join" and isinstance(f.value, ast.Constant) and isinstance(f.value.value, bytes) \
                and len(node.args) == 1 and not node.keywords:
            return ast.copy_location(ast.Call(func=ast.Name(id="__pyvc_join__", ctx=ast.Load()), args=[f.value, node.args[0]], keywords=[]), node)
        return node

    def _loop(self, node):
        self.ordinal += 1
        my = self.ordinal
        self.generic_visit(node)            # inner loops first (they get larger ordinals: pre-order numbering)
        if my not in self.wanted:
            return node
        key = "%s#%d" % (self.fkey, my)
        self.done.append(my)
        is_for = isinstance(node, ast.For)
        assigned = _assigned_names(([node.target] if is_for else []) + node.body)
        ld = lambda n: ast.Name(id=n, ctx=ast.Load())
        st = lambda n: ast.Name(id=n, ctx=ast.Store())
        it, lp = "__pyvc_it%d" % my, "__pyvc_lp%d" % my
        call_locals = ast.Call(func=ld("locals"), args=[], keywords=[])
        pre = []
        if is_for:
            pre.append(ast.Assign(targets=[st(it)], value=node.iter))
        pre.append(ast.Assign(targets=[st(lp)], value=ast.Call(
            func=ld("__pyvc_loop__"),
            args=[ast.Constant(key), ld(it) if is_for else ast.Constant(None), call_locals,
                  ast.Tuple(elts=[ast.Constant(n) for n in assigned], ctx=ast.Load())], keywords=[])))
        orig = ast.For(target=node.target, iter=ld(it), body=node.body, orelse=node.orelse, type_comment=None) if is_for \
            else ast.While(test=node.test, body=node.body, orelse=node.orelse)
        import copy
        body_copy = [copy.deepcopy(s) for s in node.body]
        else_copy = [copy.deepcopy(s) for s in node.orelse]
        havoc = ast.Assign(
            targets=[ast.Tuple(elts=[st(n) for n in assigned], ctx=ast.Store())] if assigned else [st("__pyvc_none")],
            value=ast.Call(func=ast.Attribute(value=ld(lp), attr="havoc", ctx=ast.Load()), args=[call_locals], keywords=[]))
        once = ast.For(target=st("__pyvc_once"), iter=ast.Tuple(elts=[ast.Constant(0)], ctx=ast.Load()),
                       body=body_copy,
                       orelse=[ast.Expr(ast.Call(func=ast.Attribute(value=ld(lp), attr="preserved", ctx=ast.Load()), args=[call_locals], keywords=[]))],
                       type_comment=None)
        exit_call = ast.Expr(ast.Call(func=ast.Attribute(value=ld(lp), attr="exit", ctx=ast.Load()), args=[call_locals], keywords=[]))
        # reached only when the body left the `once` loop with break (its else clause ends the path otherwise)
        broke_call = ast.Expr(ast.Call(func=ast.Attribute(value=ld(lp), attr="broke", ctx=ast.Load()), args=[call_locals], keywords=[]))
        if is_for:
            iter_branch = [ast.Assign(targets=[copy.deepcopy(node.target)],
                                      value=ast.Call(func=ast.Attribute(value=ld(lp), attr="element", ctx=ast.Load()), args=[], keywords=[])), once, broke_call]
            test = ast.Call(func=ast.Attribute(value=ld(lp), attr="iterate", ctx=ast.Load()), args=[], keywords=[])
        else:
            iter_branch = [once, broke_call]
            test = copy.deepcopy(node.test)
        ruled = [havoc, ast.If(test=test, body=iter_branch, orelse=[exit_call] + else_copy)]
        new = pre + [ast.If(test=ast.Compare(left=ld(lp), ops=[ast.Is()], comparators=[ast.Constant(None)]), body=[orig], orelse=ruled)]
        for n in new:
            ast.copy_location(n, node)
            ast.fix_missing_locations(n)
        return new

    visit_For = _loop
    visit_While = _loop


def unwrap(f):
    if isinstance(f, (staticmethod, classmethod)):
        f = f.__func__
    if isinstance(f, property):
        f = f.fget
    f = getattr(f, "__func__", f)
    while hasattr(f, "__wrapped__"):
        f = f.__wrapped__
    return f


def loop_count(func):
    func = unwrap(func)
    tree = ast.parse(textwrap.dedent(inspect.getsource(func)))
    return sum(isinstance(n, (ast.For, ast.While)) for n in ast.walk(tree))


def make_code(func, fkey, loops=(), dicts=False):
    """instrumented code object for the real function `func` (source re-read now)"""
    func = unwrap(func)
    src = textwrap.dedent(inspect.getsource(func))
    tree = ast.parse(src)
    fdef = tree.body[0]
    if not isinstance(fdef, (ast.FunctionDef,)):
        raise Unsupported("cannot instrument %r" % (func,))
    fdef.decorator_list = []
    tr = _Transformer(fkey, set(loops), dicts)
    fdef.body = [x for s in fdef.body for x in _aslist(tr.visit(s))]
    missing = set(loops) - set(tr.done)
    if missing:
        raise Unsupported("loop ordinals %s of %s no longer exist (refactored?)" % (sorted(missing), fkey))
    free = func.__code__.co_freevars
    ast.increment_lineno(tree, func.__code__.co_firstlineno - 1)
    if free:
        factory = ast.FunctionDef(
            name="__pyvc_factory", args=ast.arguments(posonlyargs=[], args=[ast.arg(arg=n) for n in free], kwonlyargs=[], kw_defaults=[], defaults=[]),
            body=[fdef, ast.Return(value=ast.Name(id=fdef.name, ctx=ast.Load()))], decorator_list=[], type_params=[])
        tree.body = [factory]
    ast.fix_missing_locations(tree)
    ns = {}
    g = dict(func.__globals__)
    code = compile(tree, func.__code__.co_filename, "exec")
    exec(code, g, ns)
    newf = ns["__pyvc_factory"](*[None] * len(free)) if free else ns[fdef.name]
    nc = newf.__code__
    if nc.co_freevars != func.__code__.co_freevars:
        raise Unsupported("free variables changed by instrumentation of %s: %s vs %s" % (fkey, nc.co_freevars, func.__code__.co_freevars))
    return nc


def bytes_mul(lit, n):
    """b"literal" * n; a harness may install its own byte-string model through ctx.ghost["bytes_mul"]"""
    from .sym import is_sym
    if not (isinstance(lit, (bytes, bytearray)) and is_sym(n)):
        return lit * n
    from . import core
    hook = core.CUR.ghost.get("bytes_mul") if core.CUR is not None else None
    if hook is None:
        raise Unsupported("bytes literal repeated a symbolic number of times")
    return hook(lit, n)


def _aslist(x):
    return x if isinstance(x, list) else [x]


class instrumented:
    """context manager.  specs: {func_key: (function object, {ordinal: LoopSpec subclass}, dicts:bool)}"""

    def __init__(self, specs):
        self.specs = specs
        self.saved = []

    def __enter__(self):
        from . import containers
        for fkey, (func, loops, dicts) in self.specs.items():
            f = unwrap(func)
            code = make_code(f, fkey, loops.keys(), dicts)
            self.saved.append((f, f.__code__))
            f.__code__ = code
            f.__globals__["__pyvc_loop__"] = __pyvc_loop__
            f.__globals__["__pyvc_dict__"] = containers.mkdict
            f.__globals__["__pyvc_join__"] = containers.bytes_join
            f.__globals__["__pyvc_bytesmul__"] = bytes_mul
            f.__globals__["__pyvc_dictcomp__"] = containers.dictcomp
            from . import absobj
            f.__globals__["__pyvc_listcomp__"] = absobj.listcomp
            for o, cls in loops.items():
                _SPECS["%s#%d" % (fkey, o)] = cls
        return self

    def __exit__(self, *a):
        for f, code in reversed(self.saved):
            f.__code__ = code
        for fkey, (func, loops, dicts) in self.specs.items():
            for o in loops:
                _SPECS.pop("%s#%d" % (fkey, o), None)
        self.saved = []
        return False
