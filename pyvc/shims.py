"""pyvc.shims -- models of the builtins that cannot be reached through proxy dunder methods.

Installed into the *globals of the modules under verification* for the duration of an
exploration (the name lookups `len`, `range`, `int`, `bytes`, `bytearray`, `isinstance`,
`io` done by the real code then find these instead of the builtins).  On purely concrete
arguments every shim delegates to the builtin it shadows, so concrete behaviour is CPython's.
"""
import builtins
import io as _io

import z3

from . import core
from .core import Unsupported
from .sym import SymBool, SymBytes, SymInt, SymReader, int_from_bytes, is_sym, mk_bool, mk_int, zint

_len = builtins.len
_isinstance = builtins.isinstance
_range = builtins.range


def has_sym(v, depth=3):
    if is_sym(v):
        return True
    if depth and _isinstance(v, (list, tuple, set, frozenset)):
        return any(has_sym(x, depth - 1) for x in v)
    return False


def len_(x):
    if _isinstance(x, SymBytes):
        return x.length()
    if hasattr(x, "__pyvc_len__"):
        return x.__pyvc_len__()
    return _len(x)


class SymRange:
    """range(a, b) with possibly symbolic membership tests; iteration needs concrete bounds"""

    def __init__(self, *args):
        if any(is_sym(a) for a in args):
            if _len(args) == 1:
                self.start, self.stop, self.step = 0, args[0], 1
            elif _len(args) == 2:
                self.start, self.stop, self.step = args[0], args[1], 1
            else:
                raise Unsupported("symbolic range with step")
            self._r = None
        else:
            self._r = _range(*args)
            self.start, self.stop, self.step = self._r.start, self._r.stop, self._r.step

    def __contains__(self, v):
        if self._r is not None and not is_sym(v):
            return v in self._r
        if not _isinstance(v, (int, SymInt, SymBool)):
            return False
        vt = zint(v)
        c = z3.And(vt >= zint(self.start), vt < zint(self.stop)) if self.step == 1 else None
        if c is None:
            if not _isinstance(self.step, int) or self.step <= 0:
                raise Unsupported("membership in range with non-positive/symbolic step")
            c = z3.And(vt >= zint(self.start), vt < zint(self.stop), (vt - zint(self.start)) % self.step == 0)
        return core.CUR.branch(c)

    def __iter__(self):
        if self._r is None:
            raise Unsupported("iteration over a symbolic range")
        return iter(self._r)

    def __len__(self):
        if self._r is None:
            raise Unsupported("len of symbolic range")
        return _len(self._r)

    def __getitem__(self, i):
        if self._r is None:
            raise Unsupported("index into symbolic range")
        return self._r[i]

    def __reversed__(self):
        if self._r is None:
            raise Unsupported("reversed symbolic range")
        return reversed(self._r)

    def __eq__(self, o):
        if _isinstance(o, SymRange):
            return self._r == o._r if self._r is not None and o._r is not None else False
        return self._r == o

    def __hash__(self):
        return hash(self._r)

    def __repr__(self):
        return "SymRange(%r, %r, %r)" % (self.start, self.stop, self.step)


class _IntShim:
    """stands for the name `int`"""
    __name__ = "int"

    def __call__(self, x=0, *a):
        if _isinstance(x, SymInt):
            return x
        if _isinstance(x, SymBool):
            return mk_int(zint(x))
        return builtins.int(x, *a)

    @staticmethod
    def from_bytes(b, byteorder="big", *, signed=False):
        return int_from_bytes(b, byteorder, signed=signed)

    def __instancecheck__(self, x):  # pragma: no cover  (only reached if isinstance is not shimmed)
        return _isinstance(x, (builtins.int, SymInt))


int_ = _IntShim()


def _bytes_ctor(x=b"", *a):
    if _isinstance(x, SymBytes):
        return x.copy()
    if _isinstance(x, SymInt):
        raise Unsupported("bytes(n) with symbolic n")
    if _isinstance(x, (list, tuple)) and has_sym(x):
        return SymBytes(list(x))
    if hasattr(x, "__pyvc_bytes__"):
        return x.__pyvc_bytes__()
    return None


class _BytesShim:
    __name__ = "bytes"

    def __call__(self, x=b"", *a):
        r = _bytes_ctor(x, *a)
        return r if r is not None else builtins.bytes(x, *a)

    fromhex = staticmethod(builtins.bytes.fromhex)


class _BytearrayShim:
    __name__ = "bytearray"

    def __call__(self, x=b"", *a):
        # always the mutable proxy: the code may append symbolic bytes to it later
        r = _bytes_ctor(x, *a)
        return r if r is not None else SymBytes.lit(builtins.bytearray(x, *a))


bytes_ = _BytesShim()
bytearray_ = _BytearrayShim()

_CLASS_MAP = {}


def isinstance_(x, cls):
    if _isinstance(cls, tuple):
        return any(isinstance_(x, c) for c in cls)
    if cls is int_:
        cls = builtins.int
    elif cls is bytes_:
        cls = builtins.bytes
    elif cls is bytearray_:
        cls = builtins.bytearray
    if _isinstance(x, SymInt):
        return cls in (builtins.int, object)
    if _isinstance(x, SymBool):
        return cls in (builtins.int, builtins.bool, object)
    if _isinstance(x, SymBytes):
        return cls in (builtins.bytes, builtins.bytearray, object)
    if _isinstance(x, SymReader):
        return cls in (_io.BytesIO, _io.IOBase, object) or _isinstance(x, cls)
    return _isinstance(x, cls)


class _IoShim:
    """stands for the module `io` (only BytesIO is modelled)"""

    def __getattr__(self, name):
        if name == "BytesIO":
            return SymReader
        return getattr(_io, name)


io_ = _IoShim()

SHIMS = {
    "len": len_,
    "range": SymRange,
    "int": int_,
    "bytes": bytes_,
    "bytearray": bytearray_,
    "isinstance": isinstance_,
}


class installed:
    """context manager: shadow the builtins in the globals of the given modules"""

    def __init__(self, modules, extra=None):
        self.modules = list(modules)
        self.extra = extra or {}
        self.saved = []

    def __enter__(self):
        missing = object()
        for m in self.modules:
            g = m if _isinstance(m, dict) else m.__dict__
            names = dict(SHIMS)
            if g.get("io") is _io:
                names["io"] = io_
            names.update(self.extra.get(g.get("__name__"), {}))
            for k, v in names.items():
                self.saved.append((g, k, g.get(k, missing)))
                g[k] = v
        self._missing = missing
        return self

    def __exit__(self, *exc):
        for g, k, old in reversed(self.saved):
            if old is self._missing:
                g.pop(k, None)
            else:
                g[k] = old
        self.saved = []
        return False
