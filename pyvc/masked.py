"""pyvc.masked -- lists / sets that are sub-collections of a small *concrete* universe with one symbolic
presence bit per element (all 2^|U| sub-collections at once).  Order of a MaskedList = order of its universe."""
import z3

from . import core
from .core import Unsupported
from .sym import SymInt, is_sym, mk_bool, mk_int, zbool, zint


def _bit(b):
    return b if z3.is_expr(b) else z3.BoolVal(bool(b))


class _Masked:
    def __init__(self, universe, bits=None):
        self.U = list(universe)
        self.bits = [_bit(b) for b in (bits if bits is not None else [False] * len(self.U))]

    def idx(self, x):
        for i, u in enumerate(self.U):
            if u is x or u == x:
                return i
        return None

    def __contains__(self, x):
        i = self.idx(x)
        if i is None:
            return False
        return core.CUR.branch(self.bits[i])

    def running(self):
        """named running counts r_0 = 0, r_{j+1} = r_j + [bit j]  (definitional variables, cached until mutation)"""
        key = tuple(b.get_id() for b in self.bits)
        if getattr(self, "_run", None) is not None and self._run[0] == key:
            return self._run[1], self._run[2]
        c = core.CUR
        r, defs = [z3.IntVal(0)], []
        for j, b in enumerate(self.bits):
            v = z3.Int(c.fresh_name("cnt"))
            d = v == r[-1] + z3.If(b, 1, 0)
            c.assume(d)
            defs.append(d)
            r.append(v)
        self._run = (key, r, defs)
        return r, defs

    def count(self):
        return self.running()[0][-1]

    def __pyvc_len__(self):
        return mk_int(self.count())

    def __len__(self):
        c = z3.simplify(self.count())
        if z3.is_int_value(c):
            return c.as_long()
        raise Unsupported("len() of a masked collection outside the shim")

    def __bool__(self):
        return core.CUR.branch(self.count() > 0)

    def concrete(self):
        out = []
        for u, b in zip(self.U, self.bits):
            b = z3.simplify(b)
            if z3.is_true(b):
                out.append(u)
            elif not z3.is_false(b):
                raise Unsupported("iteration over a masked collection with symbolic membership")
        return out

    def __iter__(self):
        return iter(self.concrete())

    def __repr__(self):
        return "%s(%d of %d)" % (type(self).__name__, sum(1 for b in self.bits if z3.is_true(z3.simplify(b))), len(self.U))


class MaskedList(_Masked):
    def remove(self, x):
        i = self.idx(x)
        if i is None or not core.CUR.branch(self.bits[i]):
            raise ValueError("list.remove(x): x not in list")
        self.bits[i] = z3.BoolVal(False)

    def __getitem__(self, k):
        if isinstance(k, slice) and k.start is None and k.step is None:
            n = k.stop
            if n is None:
                return MaskedList(self.U, self.bits)
            nt = zint(n)
            if core.CUR.branch(nt < 0):
                raise Unsupported("negative slice bound on a masked list")
            r, defs = self.running()
            out = [z3.And(b, r[j] < nt) for j, b in enumerate(self.bits)]
            res = MaskedList(self.U, out)
            res.prefix_of = (list(self.bits), r, defs, nt)          # provenance: first `nt` elements of that list
            return res
        if isinstance(k, int):
            return self.concrete()[k]
        raise Unsupported("masked list index")

    def pop(self, i=-1):
        c = self.concrete()
        x = c.pop(i)
        self.bits[self.idx(x)] = z3.BoolVal(False)
        return x

    def append(self, x):
        raise Unsupported("append to a masked list")


class MaskedSet(_Masked):
    # ---- set algebra with other masked collections over the same universe and with ordinary sets
    def _bits_of(self, other):
        if isinstance(other, _Masked):
            return [other.bits[other.idx(u)] if other.idx(u) is not None else z3.BoolVal(False) for u in self.U], \
                [u for u, b in zip(other.U, other.bits) if self.idx(u) is None and not z3.is_false(z3.simplify(b))]
        other = list(other)
        return [z3.BoolVal(any(u == y for y in other)) for u in self.U], [y for y in other if self.idx(y) is None]

    def _combine(self, other, f, need_universe):
        ob, outside = self._bits_of(other)
        if outside and need_universe:
            raise Unsupported("set operation with elements outside the universe")
        return MaskedSet(self.U, [f(a, b) for a, b in zip(self.bits, ob)])

    def __or__(self, o):
        return self._combine(o, lambda a, b: z3.Or(a, b), True)

    __ror__ = __or__

    def __and__(self, o):
        return self._combine(o, lambda a, b: z3.And(a, b), False)

    __rand__ = __and__

    def __sub__(self, o):
        return self._combine(o, lambda a, b: z3.And(a, z3.Not(b)), False)

    def __rsub__(self, o):
        return self._combine(o, lambda a, b: z3.And(b, z3.Not(a)), True)

    def difference(self, *os):
        r = self
        for o in os:
            r = r - o
        return r

    def union(self, *os):
        r = self
        for o in os:
            r = r | o
        return r

    def intersection(self, *os):
        r = self
        for o in os:
            r = r & o
        return r

    def copy(self):
        return MaskedSet(self.U, list(self.bits))

    def add(self, x):
        i = self.idx(x)
        if i is None:
            raise Unsupported("element outside the universe")
        self.bits[i] = z3.BoolVal(True)

    def discard(self, x):
        i = self.idx(x)
        if i is not None:
            self.bits[i] = z3.BoolVal(False)

    def update(self, other):
        if isinstance(other, _Masked):
            for u, b in zip(other.U, other.bits):
                i = self.idx(u)
                if i is None:
                    if not z3.is_false(z3.simplify(b)):
                        raise Unsupported("element outside the universe")
                    continue
                self.bits[i] = z3.Or(self.bits[i], b)
        else:
            for x in other:
                self.add(x)


def sorted_(it, key=None, reverse=False):
    """model of sorted() for masked collections: the universe is sorted natively by the real key function"""
    if isinstance(it, _Masked):
        order = sorted(range(len(it.U)), key=(lambda i: key(it.U[i])) if key else (lambda i: it.U[i]), reverse=reverse)
        return MaskedList([it.U[i] for i in order], [it.bits[i] for i in order])
    return sorted(it, key=key, reverse=reverse)


class SymChoice:
    """a symbolic element of a concrete list of strings (used for register names); concretised on first inspection"""

    def __init__(self, choices, idx):
        self.choices, self.idx, self._v = list(choices), idx, None

    def value(self):
        if self._v is None:
            i = core.CUR.concretize(zint(self.idx), cap=len(self.choices) + 1)
            self._v = self.choices[i]
        return self._v

    def lower(self):
        return self.value().lower()

    def __hash__(self):
        return hash(self.value())

    def __eq__(self, o):
        return self.value() == o

    def __str__(self):
        return self.value()

    __repr__ = __str__
