"""pyvc.absobj -- arbitrary objects compared by identity, and sets / filtered lists over arbitrary content.

AbsObj     an arbitrary object of some sort (a gtirb.Symbol, say) whose only observable is its identity: a symbolic integer id.
           `a == b` is the SymBool id(a) == id(b); hashing is refused (such objects may only be keys of PDict / PSet, which
           compare keys with ==).  NOTE: `a is b` on two proxies is Python identity, not the modelled identity -- contracts
           using AbsObj are only sound for code that compares these objects with == / in (checked by review of the function).
ObjMapBase arbitrary initial mapping keyed by AbsObj of one sort (membership / value are functions of the id).
PSet       set with an optional arbitrary base (membership predicate) + add/discard log; iteration needs a loop contract
           unless the content is concrete.
CompList   [E(x) for x in L if C(x)] over a list / items view with arbitrary content (interrogated with entry(i), like CompDict).
"""
import z3

from . import core
from .containers import MapBase, PDict, PList, SymItems, _keq
from .core import Unsupported
from .sym import SymBool, SymInt, is_sym, mk_bool, mk_int, zbool, zint

_MISSING = object()


class AbsObj:
    __pyvc_symbolic_key__ = True

    def __init__(self, sort, ident, **attrs):
        self.__dict__["sort"] = sort
        self.__dict__["id"] = ident
        self.__dict__["attrs_set"] = {}
        self.__dict__.update(attrs)

    def __setattr__(self, k, v):
        # attribute writes are recorded (e.g. symbol.module = None) for the contract to inspect
        self.__dict__["attrs_set"][k] = v
        self.__dict__[k] = v

    def __eq__(self, o):
        if o is self:
            return True
        if isinstance(o, AbsObj) and o.sort == self.sort:
            return mk_bool(zint(self.id) == zint(o.id))
        return False

    def __ne__(self, o):
        r = self.__eq__(o)
        if isinstance(r, SymBool):
            return mk_bool(z3.Not(r.term))
        return not r

    def __hash__(self):
        raise Unsupported("hash of an abstract object (it can only be a key of the modelled dict / set)")

    def __repr__(self):
        return "<%s #%s>" % (self.sort, self.id)


class ObjMapBase(MapBase):
    """has(id term) -> z3 Bool ; get(AbsObj) -> value"""

    def __init__(self, sort, has, get, name="objmap", nonempty=None):
        MapBase.__init__(self, has, get, name)
        self.sort = sort
        if nonempty is not None:
            self.nonempty = nonempty

    def key(self, k):
        if isinstance(k, AbsObj) and k.sort == self.sort:
            return zint(k.id)
        return None


class PSet:
    __class__ = property(lambda self: set)
    def __init__(self, items=(), base=None, key=None, nonempty=None):
        self.log = []            # ("add", k) | ("del", k)
        self.base = base         # z3 term of the key -> z3 Bool
        self.key = key or (lambda k: zint(k) if isinstance(k, (int, SymInt)) and not isinstance(k, bool) else (zint(k.id) if isinstance(k, AbsObj) else None))
        self.nonempty = nonempty
        for k in items:
            self.add(k)

    def _has(self, k):
        for op, ek in reversed(self.log):
            if _keq(k, ek):
                return op == "add"
        if self.base is not None:
            zk = self.key(k)
            if zk is None:
                return False
            return core.CUR.branch(self.base(zk))
        return False

    def __contains__(self, k):
        return self._has(k)

    def add(self, k):
        self.log.append(("add", k))

    def discard(self, k):
        self.log.append(("del", k))

    def remove(self, k):
        if not self._has(k):
            raise KeyError(k)
        self.log.append(("del", k))

    def update(self, *others):
        for o in others:
            for k in o:
                self.add(k)

    def _concrete(self):
        if self.base is not None:
            raise Unsupported("iteration over a set with symbolic initial content (needs a loop contract)")
        out = []
        for op, k in self.log:
            hit = None
            for i, ek in enumerate(out):
                if _keq(k, ek):
                    hit = i
                    break
            if op == "add" and hit is None:
                out.append(k)
            elif op == "del" and hit is not None:
                del out[hit]
        return out

    def __iter__(self):
        return iter(self._concrete())

    def __len__(self):
        return len(self._concrete())

    def __bool__(self):
        if self.base is not None:
            if not self.log and self.nonempty is not None:
                return core.CUR.branch(self.nonempty)
            raise Unsupported("truth value of a set with symbolic initial content")
        return bool(self._concrete())

    __hash__ = None

    def __repr__(self):
        return "PSet(%s%s)" % (self.log, ", base" if self.base is not None else "")


def set_shim(*a):
    """stands for the builtin `set` in the modules under contract: same behaviour on concrete hashable content, and usable
    with symbolic / abstract elements"""
    if not a:
        return PSet()
    (it,) = a
    if isinstance(it, (PSet,)):
        s = PSet(base=it.base, key=it.key, nonempty=it.nonempty)
        s.log = list(it.log)
        return s
    return PSet(list(it))


class CompList:
    __class__ = property(lambda self: list)
    """[E(x) for x in L if C(x)] where L has arbitrary content.  entry(x) -> (value, condition) for an arbitrary element."""

    def __init__(self, src, f):
        self.src, self.f = src, f

    def entry(self, x):
        return self.f(x)

    def _boom(self, *a, **kw):
        raise Unsupported("the code looked into a list built by a comprehension over symbolic content")

    __getitem__ = __contains__ = __iter__ = __len__ = __bool__ = append = _boom


def listcomp(it, f):
    """model of a list comprehension with one generator (identical to the comprehension on ordinary iterables)"""
    symbolic = (isinstance(it, PList) and not isinstance(it.n, int)) or isinstance(it, SymItems) or (isinstance(it, PSet) and it.base is not None) \
        or getattr(it, "__pyvc_symbolic_iterable__", False)
    if symbolic:
        return CompList(it, f)
    out = []
    for x in it:
        v, c = f(x)
        if c:
            out.append(v)
    return out


# ---------------------------------------------------------------------------------------------- terms for contracts
def keq_term(a, b):
    """z3 Bool: the keys a and b are equal (no branching)"""
    if a is b:
        return z3.BoolVal(True)
    if isinstance(a, AbsObj) or isinstance(b, AbsObj):
        if isinstance(a, AbsObj) and isinstance(b, AbsObj) and a.sort == b.sort:
            return zint(a.id) == zint(b.id)
        return z3.BoolVal(False)
    if isinstance(a, (int, SymInt)) and isinstance(b, (int, SymInt)) and not isinstance(a, bool) and not isinstance(b, bool):
        return zint(a) == zint(b)
    try:
        return z3.BoolVal(bool(a == b))
    except Exception:
        return z3.BoolVal(False)


def present_term(d, k):
    """z3 Bool: key k is present in the PDict d (base + log), without branching"""
    t = z3.BoolVal(False)
    if d.base is not None:
        zk = d.base.key(k)
        if zk is not None:
            t = d.base.has(zk)
    for op, ek, _ in d.log:
        t = z3.If(keq_term(k, ek), z3.BoolVal(op == "set"), t)
    return t


def log_touches(d, k):
    """z3 Bool: some write-log entry of d concerns key k"""
    return z3.Or([keq_term(k, ek) for _, ek, _ in d.log]) if d.log else z3.BoolVal(False)


def member_term(s, k):
    """z3 Bool: k is in the PSet s"""
    t = z3.BoolVal(False)
    if s.base is not None:
        zk = s.key(k)
        if zk is not None:
            t = s.base(zk)
    for op, ek in s.log:
        t = z3.If(keq_term(k, ek), z3.BoolVal(op == "add"), t)
    return t


class SymEnumerate:
    """enumerate(L) over a list with arbitrary content: only consumable by a loop contract"""
    __pyvc_symbolic_iterable__ = True

    def __init__(self, seq, start=0):
        self.seq, self.start = seq, start

    def __iter__(self):
        raise Unsupported("iteration over enumerate() of a symbolic-length list (needs a loop contract)")


def enumerate_shim(seq, start=0):
    if isinstance(seq, PList) and not isinstance(seq.n, int):
        return SymEnumerate(seq, start)
    return enumerate(seq, start)
