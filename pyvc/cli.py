import json
import os
import sys

from . import run

CHECKS = {}


def load_registry():
    p = os.path.join(run.ROOT, "contracts", "registry.json")
    return json.load(open(p))


def main(argv):
    if len(argv) < 2:
        print("usage: check <ID> quick|thorough | --replay <file>")
        return 3
    prop = argv[0]
    reg = load_registry()
    if prop not in reg:
        print("no check registered for", prop)
        return 3
    spec = reg[prop]
    if argv[1] == "--replay":
        rep = json.load(open(argv[2]))
        print(json.dumps(rep, indent=1)[:4000])
        import importlib
        mod = importlib.import_module(spec["modules"][0])
        if hasattr(mod, "replay_file"):
            return mod.replay_file(rep)
        return 0
    tier = os.environ.get("VERIF_TIER") or argv[1]
    seed = int(os.environ.get("VERIF_SEED", "0") or 0)
    return run.run_check(prop, spec["modules"], tier=tier, seed=seed, level=spec["level"],
                         assumptions=spec.get("assumptions", []), trusted=spec.get("trusted_base", []),
                         explanation=spec.get("explanation", ""))


if __name__ == "__main__":
    try:
        rc = main(sys.argv[1:])
    except SystemExit:
        raise
    except BaseException as e:      # a crash of the checker (or of importing a broken /repo) is never a violation
        import traceback
        traceback.print_exc()
        print("CHECKER-ERROR %s: %s" % (type(e).__name__, e))
        rc = 3
    sys.exit(rc)
